"""
Stream `loop` (environment style, DESIGN §1.4): the REAL `Tuner.run()` of /repo is executed
against

  (a) `ScriptBackend`  - harness subclass of `TrialBackend` (only the abstract methods are
      implemented, so the real `fetch_status_results / start_trial / resume_trial / pause_trial /
      stop_trial / stop_all` run); the worker script of every trial is a PRNG,
  (b) the real simulator `UserBlackboxBackend` on a small random table,

with a real scheduler of /repo (or the K-abiding PRNG scheduler `ScriptScheduler`).  A harness
`TunerCallback` (`Recorder`) plus per-instance wrappers of the public methods of the scheduler
and of the backend record the complete dialogue as a strictly alternating sequence

    call_0, answer_0, call_1, answer_1, ...            (calls are made by the loop,
                                                         answers come from the environment)

The Lean model (`Model/Tuner.lean`, driver `Drivers/Loop.lean`) is a machine
`step : State -> Answer -> State x Call`; it is fed the answers and must reproduce the calls
exactly and in order, and at the end the counters, statistics, best trials and log rows.

Monitors (`monitor_c01`, `monitor_c12`, `monitor_counters_backend`, `monitor_c13_loop`, `monitor_c17`,
`monitor_c20_loop`, `monitor_k`) are direct readings of the property statements on the recorded dialogue.
The witnesses of the Lean `_counterexample` theorems (`WITNESSES`) are handed out by the driver (op `witness`),
replayed call by call on the real Tuner (`witness_specs`, `monitor_witness`) and reported in the evidence
(`witness_report`).  A run whose dialogue has no alternating call/answer order (a real backend call raising by
itself after nested recorded calls) is skipped and counted (`skipped:unlinearisable`).
"""
import contextlib
import io
import json
import logging
import math
import numbers
import os
import random
import shutil
import signal
import sys
import tempfile
import threading
from datetime import datetime
from fractions import Fraction
from pathlib import Path

logging.disable(logging.CRITICAL)
sys.modules.setdefault("yahpo_gym", None)  # broken binary dependency in this sandbox; import guarded in /repo

import numpy as np

from syne_tune import Tuner, StoppingCriterion
from syne_tune.backend.trial_backend import TrialBackend
from syne_tune.backend.trial_status import Status, Trial, TrialResult
from syne_tune.constants import (
    ST_WORKER_TIME, ST_WORKER_COST, ST_TUNER_TIME, ST_WORKER_TIMESTAMP, ST_DECISION, ST_STATUS, ST_TRIAL_ID,
)
from syne_tune.config_space import randint, uniform, choice
from syne_tune.optimizer.scheduler import TrialScheduler, TrialSuggestion, SchedulerDecision
from syne_tune.results_callback import StoreResultsCallback
from syne_tune.tuner_callback import TunerCallback
import syne_tune.tuning_status as tuning_status_module

from framework import frac_str

EPOCH0 = datetime(2020, 1, 1)
METRIC, METRIC2, RES, MAXATTR, AUX = "loss", "acc", "epoch", "epochs", "aux"
FIXED_KEYS = [ST_WORKER_TIME, ST_WORKER_COST, ST_TUNER_TIME]


class InjectedError(Exception):
    """raised by the recorder instead of performing the chosen call"""


class Runaway(BaseException):
    """the tuning loop does not come to an end (harness guard, reported as a harness error)"""


MAX_CALLS = 6000
CUT_AT = 2000  # a loop that is still running at this call is cut by an injected exception (and reported in the histogram)


# ---------------------------------------------------------------------------------
# recorder


class Dialogue:
    """alternating call/answer sequence; nested calls are linearised in entry order"""

    def __init__(self, inject_at=None):
        self.entries = []  # each: {"call": [...], "ans": {...}}
        self.inject_at = inject_at
        self.keys = {k: i for i, k in enumerate(FIXED_KEYS)}
        self.cfgs = []  # token -> config dict
        self.results = []  # rid -> (tid, dict)
        self.rid_of = {}  # id(result dict) -> rid
        self._attributed = set()  # ids of exceptions already attributed to a (nested) call
        self.active = True
        self.runaway = False
        self.unlinearisable = None
        self.cut = False
        self.resume_status = []  # (call index, trial, backend status just before `resume_trial`)
        self.probe = None  # optional: number of busy workers in the backend's truth, sampled at every call

    # -- tokens
    def key(self, name):
        if name not in self.keys:
            self.keys[name] = len(self.keys)
        return self.keys[name]

    def cfg_token(self, config):
        for i, c in enumerate(self.cfgs):
            if same_config(c, config):
                return i
        self.cfgs.append(dict(config))
        return len(self.cfgs) - 1

    def result_token(self, tid, result):
        rid = self.rid_of.get(id(result))
        if rid is None or self.results[rid][1] is not result:
            rid = len(self.results)
            self.results.append((tid, result))
            self.rid_of[id(result)] = rid
        return rid

    def wire_result(self, result):
        out = []
        for k, v in result.items():
            out.append([self.key(k), wire_val(v)])
        return out

    # -- recording
    def call(self, call, fn, answer_of=None):
        """record `call`, perform fn(), record its answer. Returns fn()'s value."""
        if not self.active:
            return fn()
        if len(self.entries) >= MAX_CALLS and not self.runaway:
            self.runaway = True
            raise Runaway(f"more than {MAX_CALLS} calls")
        e = {"call": call, "ans": None}
        if self.probe is not None:
            e["_occ"] = self.probe()
        idx = len(self.entries)
        self.entries.append(e)
        if idx == CUT_AT:
            self.cut = True
        if (self.inject_at is not None and idx == self.inject_at) or idx == CUT_AT:
            ex = InjectedError(f"injected at call {idx}")
            self._attributed.add(id(ex))
            e["ans"] = {"raise": "InjectedError"}
            raise ex
        try:
            v = fn()
        except BaseException as ex:  # noqa
            if id(ex) in self._attributed:
                e["ans"] = {"ret": True}  # raised by a nested recorded call; this call's own part returned
            else:
                self._attributed.add(id(ex))
                e["ans"] = {"raise": type(ex).__name__}
                if len(self.entries) > idx + 1 and not isinstance(ex, Runaway):
                    # the call raised by itself AFTER nested recorded calls: no alternating order exists
                    self.unlinearisable = f"call {idx} {call} raised {type(ex).__name__} after nested calls"
            raise
        e["ans"] = answer_of(v) if answer_of else {"ret": True}
        return v


def same_config(a, b):
    if a.keys() != b.keys():
        return False
    for k in a:
        x, y = a[k], b[k]
        if isinstance(x, float) and isinstance(y, float) and math.isnan(x) and math.isnan(y):
            continue
        if type(x) != type(y) or x != y:
            return False
    return True


def wire_val(v):
    if isinstance(v, numbers.Number) and not isinstance(v, complex):
        return frac_str(v)
    return {"s": str(v)[:40]}


class Recorder(TunerCallback):
    """first callback of the list; records the loop's callback events and status snapshots"""

    def __init__(self, dlg):
        self.dlg = dlg
        self.tuner = None
        self.snapshots = []  # (label, {tid: status}) after every loop iteration
        self.crit_trace = []
        self.crit_status = []   # per `_stop_condition()`: (dialogue position, value, {tid: status}, number of reported results)
        self.sched_running = []  # per `_schedule_new_tasks`: (dialogue position, len(running_trials_ids) at entry)

    def _ev(self, *call):
        if self.tuner is not None and self.tuner.tuning_status is not None:
            self.snapshots.append(dict(self.tuner.tuning_status.last_trial_status_seen))
        self.dlg.call(["cb"] + list(call), lambda: None)

    def on_tuning_start(self, tuner):
        self.tuner = tuner
        self._ev("tuning_start")

    def on_tuning_end(self):
        self._ev("tuning_end")

    def on_loop_start(self):
        self._ev("loop_start")
        # the experiment is also loaded from disk WHILE it runs (same process, unfinished results file): what is read then
        # must not change what a load after the end of the run returns
        self.n_loops = getattr(self, "n_loops", 0) + 1
        if getattr(self, "mid_load", None) is not None and self.n_loops in (2, 4):
            try:
                self.mid_load()
                self.mid_loads = getattr(self, "mid_loads", 0) + 1
            except Exception:  # noqa  (no file yet)
                pass

    def on_loop_end(self):
        self._ev("loop_end")

    def on_fetch_status_results(self, trial_status_dict, new_results):
        self._ev("fetch")

    def on_trial_complete(self, trial, result):
        self._ev("complete", int(trial.trial_id), self.dlg.result_token(trial.trial_id, result))

    def on_trial_result(self, trial, status, result, decision):
        self._ev("result", int(trial.trial_id), self.dlg.result_token(trial.trial_id, result), decision, status)

    def on_tuning_sleep(self, sleep_time):
        self._ev("sleep")

    def on_start_trial(self, trial):
        self._ev("start", int(trial.trial_id))

    def on_resume_trial(self, trial):
        self._ev("resume", int(trial.trial_id))


SCHED_CALL_TIMEOUT = 30.0  # seconds


class SchedulerTimeout(Exception):
    """a scheduler call did not return (e.g. DEHB `suggest` after a trial failure, known finding of C13); recorded as
    an exception raised by that call, so the run goes on into the `finally` block instead of hanging the check"""


def _raise_sched_timeout(signum, frame):
    raise SchedulerTimeout(f"scheduler call did not return within {SCHED_CALL_TIMEOUT} s")


def timed(fn):
    def g(*a, **k):
        use_alarm = threading.current_thread() is threading.main_thread()
        if use_alarm:
            old = signal.signal(signal.SIGALRM, _raise_sched_timeout)
            signal.setitimer(signal.ITIMER_REAL, SCHED_CALL_TIMEOUT)
        try:
            return fn(*a, **k)
        finally:
            if use_alarm:
                signal.setitimer(signal.ITIMER_REAL, 0)
                signal.signal(signal.SIGALRM, old)
    return g


def wrap_scheduler(sch, dlg):
    o_suggest, o_add, o_result = timed(sch.suggest), timed(sch.on_trial_add), timed(sch.on_trial_result)
    o_remove, o_complete, o_error = sch.on_trial_remove, sch.on_trial_complete, sch.on_trial_error

    def ans_suggest(s):
        if s is None:
            return {"kind": "none"}
        if s.spawn_new_trial_id:
            return {"kind": "start", "cfg": dlg.cfg_token(s.config),
                    "ckpt": None if s.checkpoint_trial_id is None else int(s.checkpoint_trial_id)}
        return {"kind": "resume", "id": int(s.checkpoint_trial_id),
                "cfg": None if s.config is None else dlg.cfg_token(s.config)}

    sch.suggest = lambda trial_id: dlg.call(["sched", "suggest", int(trial_id)], lambda: o_suggest(trial_id), ans_suggest)
    sch.on_trial_add = lambda trial: dlg.call(["sched", "add", int(trial.trial_id)], lambda: o_add(trial))
    def on_result(trial, result):
        before = dict(result)

        def ans(d):
            if result != before or list(result) != list(before):  # the scheduler changed the result dict (e.g. total cost)
                return {"d": d, "m": dlg.wire_result(result)}
            return {"d": d}

        return dlg.call(["sched", "result", int(trial.trial_id), dlg.result_token(trial.trial_id, result)],
                        lambda: o_result(trial, result), ans)

    sch.on_trial_result = on_result
    sch.on_trial_remove = lambda trial: dlg.call(["sched", "remove", int(trial.trial_id)], lambda: o_remove(trial))
    sch.on_trial_complete = lambda trial, result: dlg.call(
        ["sched", "complete", int(trial.trial_id), dlg.result_token(trial.trial_id, result)], lambda: o_complete(trial, result))
    sch.on_trial_error = lambda trial: dlg.call(["sched", "error", int(trial.trial_id)], lambda: o_error(trial))
    if hasattr(sch, "trials_checkpoints_can_be_removed"):
        o_rem = sch.trials_checkpoints_can_be_removed
        sch.trials_checkpoints_can_be_removed = lambda: dlg.call(
            ["sched", "removable"], o_rem, lambda ids: {"ids": [int(i) for i in ids]})


def wrap_backend(be, dlg):
    o_start, o_resume, o_pause, o_stop = be.start_trial, be.resume_trial, be.pause_trial, be.stop_trial
    o_fetch, o_busy, o_del, o_copy = be.fetch_status_results, be.busy_trial_ids, be.delete_checkpoint, be.copy_checkpoint
    o_all, o_stop_all, o_out, o_err = be._all_trial_results, be.stop_all, be.stdout, be.stderr
    state = {"in_stop_all": False}

    def ans_fetch(v):
        sd, res = v
        return {"status": [[int(t), s] for t, (_, s) in sd.items()],
                "results": [[int(t), dlg.result_token(t, r), dlg.wire_result(r)] for t, r in res]}

    def start(config, checkpoint_trial_id=None):
        return dlg.call(["be", "start", int(be.new_trial_id()), dlg.cfg_token(config),
                         None if checkpoint_trial_id is None else int(checkpoint_trial_id)],
                        lambda: o_start(config=config, checkpoint_trial_id=checkpoint_trial_id))

    def resume(trial_id, new_config=None):
        td = be._trial_dict.get(trial_id)
        dlg.resume_status.append((len(dlg.entries), int(trial_id), getattr(td, "status", None)))
        return dlg.call(["be", "resume", int(trial_id), None if new_config is None else dlg.cfg_token(new_config)],
                        lambda: o_resume(trial_id=trial_id, new_config=new_config))

    class StatusProxy:
        """`stop_all` reads `trial.status` of the objects returned by `_all_trial_results` one by one while it
        stops trials; backends may hand out their live objects (the simulator does), so every read is an
        observation of its own"""

        def __init__(self, obj):
            self._obj = obj
            self.trial_id = obj.trial_id

        @property
        def status(self):
            return dlg.call(["be", "status", int(self._obj.trial_id)], lambda: self._obj.status, lambda v: {"st": v})

        def __getattr__(self, name):
            return getattr(self._obj, name)

    def all_results(trial_ids):
        if state["in_stop_all"]:
            v = dlg.call(["be", "all_results"], lambda: o_all(trial_ids), lambda v: {"ids": [int(t.trial_id) for t in v]})
            return [StatusProxy(t) for t in v]
        return o_all(trial_ids)

    def stop_all():
        state["in_stop_all"] = True
        try:
            return o_stop_all()
        finally:
            state["in_stop_all"] = False

    be.start_trial = start
    be.resume_trial = resume
    be.pause_trial = lambda trial_id, result=None: dlg.call(["be", "pause", int(trial_id)], lambda: o_pause(trial_id=trial_id, result=result))
    be.stop_trial = lambda trial_id, result=None: dlg.call(["be", "stop", int(trial_id)], lambda: o_stop(trial_id=trial_id, result=result))
    be.fetch_status_results = lambda trial_ids: dlg.call(["be", "fetch", sorted(int(t) for t in trial_ids)], lambda: o_fetch(trial_ids), ans_fetch)
    be.busy_trial_ids = lambda: dlg.call(["be", "busy"], o_busy, lambda v: {"ids": [int(t) for t, _ in v]})
    be.delete_checkpoint = lambda trial_id: dlg.call(["be", "delete", int(trial_id)], lambda: o_del(trial_id))
    be.copy_checkpoint = lambda src_trial_id, tgt_trial_id: dlg.call(
        ["be", "copy", int(src_trial_id), int(tgt_trial_id)], lambda: o_copy(src_trial_id=src_trial_id, tgt_trial_id=tgt_trial_id))
    be._all_trial_results = all_results
    be.stop_all = stop_all
    be.stdout = lambda trial_id: dlg.call(["be", "stdout", int(trial_id)], lambda: o_out(trial_id))
    be.stderr = lambda trial_id: dlg.call(["be", "stderr", int(trial_id)], lambda: o_err(trial_id))


class ClockStub:
    """replaces module `time` inside syne_tune.tuning_status: a scripted wall clock whose
    readings by the stopping criterion are environment answers of the dialogue"""

    def __init__(self, dlg, rng, step):
        self.dlg, self.rng, self.step = dlg, rng, step
        self.now = 0.0
        self.first = True

    def perf_counter(self):
        if self.first:  # TuningStatus.__init__ : start_time
            self.first = False
            return 0.0
        f = sys._getframe(1)
        by_criterion = f.f_code.co_name == "wallclock_time" and f.f_back is not None and f.f_back.f_code.co_name == "__call__"
        if not by_criterion:  # e.g. str(tuning_status) printed in the finaliser
            return self.now
        self.now += self.step * self.rng.randint(0, 3)
        return self.dlg.call(["clock"], lambda: self.now, lambda v: {"t": frac_str(v)})


# ---------------------------------------------------------------------------------
# scripted backend


class Run:
    def __init__(self, first, last, fate, fail_at):
        self.next_r, self.last, self.fate, self.fail_at = first, last, fate, fail_at


class ScriptBackend(TrialBackend):
    """in-memory backend; the training script of a trial is a PRNG (per poll 0..k new results per
    running trial; completion / failure / external stop becomes visible together with the last
    result or one poll later).  Only the abstract methods of TrialBackend are implemented."""

    def __init__(self, seed, params, max_t, delete_checkpoints=False):
        super().__init__(delete_checkpoints=delete_checkpoints)
        self.rng = random.Random(seed)
        self.p = params
        self.max_t = max_t
        self.truth = {}  # tid -> {"status", "metrics", "config", "run": Run, "paused_at": int, "stopping": int}
        self.ckpt = set()  # trials that currently have a checkpoint
        self.emitted = 0
        self.copy_missing = []  # (src, tgt) copies from a deleted / absent checkpoint
        self.resume_missing = []
        self.metric_names = params.get("metric_names", [METRIC])
        self.deleted = []
        self.delete_log = []
        self.dlg = None

    def occupancy(self):
        return sum(1 for t in self.truth.values() if t["status"] in (Status.in_progress, Status.stopping))

    # -- abstract methods
    def entrypoint_path(self):
        return Path("script_backend.py")

    def set_entrypoint(self, entry_point):
        pass

    def stdout(self, trial_id):
        return ["out\n"]

    def stderr(self, trial_id):
        return ["err\n"]

    def copy_checkpoint(self, src_trial_id, tgt_trial_id):
        if src_trial_id not in self.ckpt:
            self.copy_missing.append((src_trial_id, tgt_trial_id))
            if self.p.get("strict_ckpt", True):
                raise FileNotFoundError(f"no checkpoint of trial {src_trial_id}")
        else:
            self.ckpt.add(tgt_trial_id)

    def delete_checkpoint(self, trial_id):
        self.deleted.append(trial_id)
        # the backend's truth at the moment of the deletion: (dialogue position, trial, status, had a checkpoint)
        self.delete_log.append((len(self.dlg.entries) - 1 if self.dlg is not None else -1, trial_id,
                                self.truth.get(trial_id, {}).get("status"), trial_id in self.ckpt))
        self.ckpt.discard(trial_id)

    def _new_run(self, trial_id, config, first):
        last = self.max_t
        if isinstance(config, dict) and MAXATTR in config and self.p.get("obey_max_resource", True):
            last = int(config[MAXATTR])
        if self.p.get("short_runs"):
            last = min(last, first + self.rng.randint(0, self.p["short_runs"]))
        u = self.rng.random()
        fate, fail_at = Status.completed, None
        if u < self.p.get("p_fail", 0.0):
            fate = Status.failed
        elif u < self.p.get("p_fail", 0.0) + self.p.get("p_extstop", 0.0):
            fate = Status.stopped
        if fate != Status.completed:
            fail_at = self.rng.randint(first - 1, max(first - 1, last - 1))  # last resource reported before the end
        return Run(first, last, fate, fail_at)

    def _schedule(self, trial_id, config):
        t = self.truth.get(trial_id)
        if t is None:
            t = {"metrics": [], "paused_at": 0}
            self.truth[trial_id] = t
        t["status"] = Status.in_progress
        t.pop("ended_at", None)
        t["config"] = config
        first = t["paused_at"] + 1 if (trial_id in self.ckpt or not self.p.get("restart_without_ckpt", True)) else 1
        if t["paused_at"] > 0 and trial_id not in self.ckpt:
            self.resume_missing.append(trial_id)
        t["run"] = self._new_run(trial_id, config, first)
        self.ckpt.add(trial_id)  # the script writes a checkpoint as soon as it runs

    def _resume_trial(self, trial_id):
        pass

    def _pause_trial(self, trial_id, result):
        t = self.truth[trial_id]
        t["status"] = Status.paused
        if result is not None and RES in result:
            t["paused_at"] = int(result[RES])
        else:
            t["paused_at"] = t["run"].next_r - 1

    def _stop_trial(self, trial_id, result):
        t = self.truth[trial_id]
        d = self.p.get("stop_delay", 0)
        if d and t["status"] == Status.in_progress:
            t["status"] = Status.stopping
            t["stopping"] = d
        elif t["status"] in (Status.in_progress, Status.stopping, Status.paused):
            t["status"] = Status.stopped

    def _value(self, tid, r, k):
        rr = random.Random(self.p.get("vseed", 0) * 7919 + tid * 104729 + r * 31 + k)
        lat = random.Random(self.p.get("vseed", 0) * 31 + tid).randrange(0, 64)
        vs = self.p.get("vstyle")
        if vs == "zero-min":      # running minimum is exactly 0 (threshold tests at the value 0)
            return float(rr.choice([0, 0, 1, 2, 3]))
        if vs == "zero-max":      # running maximum is exactly 0
            return float(rr.choice([0, 0, -1, -2, -3]))
        return (lat * 4 + rr.randrange(-32, 33)) / 64.0

    def _emit(self, tid, t):
        run = t["run"]
        r = run.next_r
        run.next_r += 1
        self.emitted += 1
        res = {}
        for k, name in enumerate(self.metric_names):
            res[name] = self._value(tid, r, k)
        res[RES] = r
        res[ST_WORKER_TIMESTAMP] = self.emitted
        res[ST_WORKER_TIME] = r * (1 + tid % 3) / 4.0
        if self.p.get("worker_iter"):
            # the counter of the worker's Reporter: it starts again at 0 in every run of a trial
            run.n_reported = getattr(run, "n_reported", 0) + 1
            res["st_worker_iter"] = run.n_reported - 1
        style = self.p.get("style", "plain")
        if style in ("cost", "rich"):
            res[ST_WORKER_COST] = r * (1 + tid % 2) / 8.0
        if style == "rich":
            u = self.rng.random()
            if u < 0.15:
                res[AUX] = float("nan")
            elif u < 0.3:
                res[AUX] = "text%d" % self.rng.randint(0, 3)
            elif u < 0.35:
                res[AUX] = float("inf") if self.rng.random() < 0.5 else float("-inf")
            elif u < 0.9:
                res[AUX] = self.rng.randrange(-64, 65) / 16.0 if self.rng.random() < 0.7 else self.rng.randrange(-3, 4)
            if self.p.get("report_hp_name") and t.get("config") and self.rng.random() < 0.5:
                # the script reports a value under the name of one of its hyperparameters (e.g. the current learning rate)
                hk = sorted(k_ for k_ in t["config"] if k_ not in (MAXATTR,))[0]
                res[hk] = 1000 + r
            if self.p.get("nan_metric") and self.rng.random() < 0.2:
                res[self.metric_names[0]] = float("nan")
        if self.p.get("text_metric") and len(self.metric_names) > 1 and self.rng.random() < 0.12:
            # the second metric of a (scripted) multi-metric scheduler is now and then not a number
            res[self.metric_names[1]] = "text%d" % self.rng.randint(0, 3)
        t["metrics"].append(res)

    def _advance(self, tid):
        """the worker of trial tid makes progress (called when the trial is looked at)"""
        t = self.truth[tid]
        if t["status"] == Status.stopping:
            t["stopping"] -= 1
            if t["stopping"] <= 0:
                t["status"] = Status.stopped
            return
        if t["status"] != Status.in_progress:
            return
        run = t["run"]
        end_r = run.last if run.fail_at is None else run.fail_at
        if run.next_r > end_r:  # everything was reported at an earlier poll: the end becomes visible now
            self._end(t, run)
            return
        n = self.rng.randint(0, self.p.get("max_batch", 2))
        for _ in range(n):
            if run.next_r > end_r:
                break
            self._emit(tid, t)
        if run.next_r > end_r and self.rng.random() < self.p.get("p_end_same_poll", 0.5):
            self._end(t, run)

    def _end(self, t, run):
        """the run ends by itself (completes / fails / is stopped from outside)"""
        t["status"] = run.fate
        t["ended_at"] = len(self.dlg.entries) if self.dlg is not None else 0
        t["runs_ended"] = t.get("runs_ended", 0) + 1

    def _all_trial_results(self, trial_ids):
        out = []
        if not self.p.get("shuffle_poll"):
            for tid in trial_ids:
                self._advance(tid)
                t = self.truth[tid]
                out.append(TrialResult(trial_id=tid, config=_registered_config(self, tid), creation_time=EPOCH0,
                                       metrics=list(t["metrics"]), status=t["status"]))
            return out
        # param `shuffle_poll` (C20 early-removal cases): the new results of the polled trials arrive in a random interleaving
        # (the loop sorts the results of a poll by worker time-stamp; the order of the reports of one trial is kept)
        before = {tid: len(self.truth[tid]["metrics"]) for tid in trial_ids}
        for tid in trial_ids:
            self._advance(tid)
        if before:
            new = {tid: self.truth[tid]["metrics"][n:] for tid, n in before.items() if len(self.truth[tid]["metrics"]) > n}
            stamps = sorted(r[ST_WORKER_TIMESTAMP] for rs in new.values() for r in rs)
            pos = {tid: 0 for tid in new}
            for s in stamps:
                tid = self.rng.choice(sorted(tid for tid in new if pos[tid] < len(new[tid])))
                new[tid][pos[tid]][ST_WORKER_TIMESTAMP] = s
                pos[tid] += 1
        for tid in trial_ids:
            t = self.truth[tid]
            out.append(TrialResult(trial_id=tid, config=_registered_config(self, tid), creation_time=EPOCH0,
                                   metrics=list(t["metrics"]), status=t["status"]))
        return out

    def busy_trial_ids(self):
        # the backend's truth may be ahead of what the loop has polled: a worker may finish here
        p = self.p.get("p_finish_at_busy", 0.0)
        for tid, t in self.truth.items():
            if t["status"] == Status.in_progress and p and self.rng.random() < p:
                run = t["run"]
                end_r = run.last if run.fail_at is None else run.fail_at
                while run.next_r <= end_r:
                    self._emit(tid, t)
                self._end(t, run)
            elif t["status"] == Status.stopping:
                self._advance(tid)
        return [(tid, t["status"]) for tid, t in self.truth.items() if t["status"] in (Status.in_progress, Status.stopping)]


# ---------------------------------------------------------------------------------
# schedulers


def _registered_config(be, tid):
    """the configuration the backend's base class has on record for the trial (what LocalBackend and the simulator hand
    out with their results: `self._trial_dict[trial_id].add_results(...)`), not the one the job was scheduled with"""
    td = be._trial_dict.get(tid)
    return be.truth[tid]["config"] if td is None else td.config


class ScriptScheduler(TrialScheduler):
    """PRNG scheduler obeying contract K: random decisions, random start / start-from-checkpoint /
    resume-of-a-paused-trial / none suggestions."""

    def __init__(self, seed, params, metric_names, modes, sim=False, max_t=None):
        super().__init__({"a": randint(0, 2), "b": randint(0, 1)} if sim else {"x": uniform(0, 1), "k": randint(0, 3)})
        self.sim = sim
        self.max_t = max_t  # simulator only: last fidelity of the table
        self.rng = random.Random(seed)
        self.p = params
        self._metric_names, self._modes = metric_names, modes
        self.paused, self.dead, self.alive = [], set(), set()
        self.removable_pending = []
        self.n = 0

    def metric_names(self):
        return self._metric_names

    def metric_mode(self):
        return self._modes

    def _suggest(self, trial_id):
        self.n += 1
        if self.p.get("max_suggest") is not None and self.n > self.p["max_suggest"]:
            return None
        u = self.rng.random()
        if self.paused and u < self.p.get("p_resume", 0.3):
            t = self.paused.pop(self.rng.randrange(len(self.paused)))
            self.alive.add(t)
            cfg = None
            if self.rng.random() < 0.4:
                cfg = self._config()
            return TrialSuggestion.resume_suggestion(trial_id=t, config=cfg)
        cfg = self._config()
        ck = None
        known = sorted(self.alive | set(self.paused))
        if known and u > 1 - self.p.get("p_ckpt", 0.15):
            ck = self.rng.choice(known)
        return TrialSuggestion.start_suggestion(cfg, checkpoint_trial_id=ck)

    def _config(self):
        if self.sim:
            return {"a": self.rng.randint(0, 2), "b": self.rng.randint(0, 1)}
        return {"x": self.rng.randrange(0, 64) / 64.0, "k": self.rng.randint(0, 3)}

    def on_trial_add(self, trial):
        self.alive.add(trial.trial_id)

    def on_trial_result(self, trial, result):
        u = self.rng.random()
        if u < self.p.get("p_stop", 0.15):
            return SchedulerDecision.STOP
        if u < self.p.get("p_stop", 0.15) + self.p.get("p_pause", 0.15):
            if self.sim and self.max_t is not None and isinstance(result, dict) and int(result.get(RES, 0)) >= self.max_t:
                # a trial paused at the last fidelity of the simulator's table has nothing left to report: resuming it
                # makes the real backend raise IndexError (`results[0]` of an empty list) at the next event it
                # processes; real schedulers STOP at max_t, so does this one
                return SchedulerDecision.STOP
            return SchedulerDecision.PAUSE
        return SchedulerDecision.CONTINUE

    def on_trial_remove(self, trial):
        # the loop calls this after its own STOP / PAUSE; the decision is remembered via last_decision
        pass

    def on_trial_complete(self, trial, result):
        self._kill(trial.trial_id)

    def on_trial_error(self, trial):
        self._kill(trial.trial_id)

    def _kill(self, t):
        self.alive.discard(t)
        self.dead.add(t)
        if t in self.paused:
            self.paused.remove(t)

    def note_decision(self, tid, d):
        """called by the wrapper below so that the scheduler knows its own last decision"""
        if d == SchedulerDecision.STOP:
            self._kill(tid)
        elif d == SchedulerDecision.PAUSE:
            self.alive.discard(tid)
            if tid not in self.dead and tid not in self.paused:
                self.paused.append(tid)

    def trials_checkpoints_can_be_removed(self):
        out = []
        if self.paused and self.rng.random() < self.p.get("p_removable", 0.0):
            t = self.paused.pop(self.rng.randrange(len(self.paused)))
            self.dead.add(t)
            out.append(t)
        return out


def make_script_scheduler(seed, params, metric_names, modes, with_ckpt_mixin, sim=False, max_t=None):
    if with_ckpt_mixin:
        from syne_tune.callbacks.remove_checkpoints_callback import DefaultRemoveCheckpointsSchedulerMixin

        class ScriptSchedulerCk(DefaultRemoveCheckpointsSchedulerMixin, ScriptScheduler):
            trials_checkpoints_can_be_removed = ScriptScheduler.trials_checkpoints_can_be_removed

        s = ScriptSchedulerCk(seed, params, metric_names, modes, sim, max_t if sim else None)
    else:
        s = ScriptScheduler(seed, params, metric_names, modes, sim, max_t if sim else None)
    orig = s.on_trial_result

    def on_trial_result(trial, result):
        d = orig(trial, result)
        s.note_decision(trial.trial_id, d)
        return d

    s.on_trial_result = on_trial_result
    return s


# ---------------------------------------------------------------------------------
# replay of a fixed dialogue (the witnesses of the Lean `_counterexample` theorems)

STATUS_OF_WIRE = {"InProgress": Status.in_progress, "Paused": Status.paused, "Stopped": Status.stopped,
                  "Stopping": Status.stopping, "Completed": Status.completed, "Failed": Status.failed}


class ReplayBackend(ScriptBackend):
    """in-memory backend that answers `fetch_status_results` and `busy_trial_ids` from a script (the
    answers of a dialogue); everything else is the generic `TrialBackend`"""

    def __init__(self, dialogue, metric_name, delete_checkpoints=False):
        super().__init__(0, {"strict_ckpt": False}, 1, delete_checkpoints=delete_checkpoints)
        self.polls = [e["ans"] for e in dialogue if e["call"][:2] == ["be", "fetch"]]
        self.busy = [e["ans"]["ids"] for e in dialogue if e["call"][:2] == ["be", "busy"]]
        self.metric_name = metric_name
        self.in_fetch = False
        self.script_exhausted = False
        self.idle = set()  # trials whose worker is done although no poll has reported their end yet

    def occupancy(self):
        return sum(1 for tid, t in self.truth.items()
                   if t["status"] in (Status.in_progress, Status.stopping) and tid not in self.idle)

    def fetch_status_results(self, trial_ids):
        self.in_fetch = True
        try:
            return super().fetch_status_results(trial_ids)
        finally:
            self.in_fetch = False

    def _schedule(self, trial_id, config):
        t = self.truth.setdefault(trial_id, {"metrics": [], "paused_at": 0})
        t["status"] = Status.in_progress
        t["config"] = config
        t.pop("ended_at", None)
        self.ckpt.add(trial_id)

    def _pause_trial(self, trial_id, result):
        self.truth[trial_id]["status"] = Status.paused

    def _advance(self, tid):
        pass

    def _all_trial_results(self, trial_ids):
        if self.in_fetch:
            if self.polls:
                a = self.polls.pop(0)
                for tid, st in a["status"]:
                    new = STATUS_OF_WIRE[st]
                    t = self.truth[tid]
                    if new != t["status"] and new in (Status.completed, Status.failed, Status.stopped):
                        t["ended_at"] = len(self.dlg.entries) if self.dlg is not None else 0
                    t["status"] = new
                for tid, _rid, metrics in a["results"]:
                    kv = dict((k, v) for k, v in metrics)
                    self.truth[tid]["metrics"].append({self.metric_name: float(Fraction(kv[3])),
                                                       ST_WORKER_TIMESTAMP: int(Fraction(kv[4]))})
            else:
                self.script_exhausted = True
        return [TrialResult(trial_id=tid, config=_registered_config(self, tid), creation_time=EPOCH0,
                            metrics=list(self.truth[tid]["metrics"]), status=self.truth[tid]["status"]) for tid in trial_ids]

    def busy_trial_ids(self):
        if self.busy:
            ids = self.busy.pop(0)
            self.idle = {tid for tid, t in self.truth.items()
                         if t["status"] in (Status.in_progress, Status.stopping) and tid not in ids}
        else:
            self.script_exhausted = True
            ids = [tid for tid, t in self.truth.items() if t["status"] in (Status.in_progress, Status.stopping)]
        return [(tid, self.truth[tid]["status"]) for tid in ids]


class ReplayScheduler(ScriptScheduler):
    """scheduler that answers `suggest` and `on_trial_result` from a script"""

    def __init__(self, dialogue, metric_names, modes):
        super().__init__(0, {}, metric_names, modes)
        self.suggestions = [e["ans"] for e in dialogue if e["call"][:2] == ["sched", "suggest"]]
        self.decisions = [e["ans"]["d"] for e in dialogue if e["call"][:2] == ["sched", "result"]]
        self.script_exhausted = False

    def _cfg(self, token):
        return {"x": token / 64.0, "k": 0}

    def _suggest(self, trial_id):
        if not self.suggestions:
            self.script_exhausted = True
            return None
        a = self.suggestions.pop(0)
        if a["kind"] == "none":
            return None
        if a["kind"] == "start":
            return TrialSuggestion.start_suggestion(self._cfg(a["cfg"]), checkpoint_trial_id=a["ckpt"])
        return TrialSuggestion.resume_suggestion(trial_id=a["id"], config=None if a["cfg"] is None else self._cfg(a["cfg"]))

    def on_trial_result(self, trial, result):
        if not self.decisions:
            self.script_exhausted = True
            return SchedulerDecision.CONTINUE
        return self.decisions.pop(0)

    def trials_checkpoints_can_be_removed(self):
        return []


CRIT_COUNT_FIELDS = ("max_num_trials_started", "max_num_trials_completed", "max_num_trials_finished", "max_num_evaluations")


def witness_spec(name, w):
    """case spec that replays the witness `w` (output of the driver op `witness`) on the real Tuner; an answer `raise`
    of the witness becomes an exception injected at that call"""
    crit = {}
    for k in CRIT_COUNT_FIELDS:
        if w.get(k) is not None:
            crit[k] = w[k]
    spec = {"seed": 0, "witness": name, "backend": "replay", "scheduler": {"kind": "replay"},
            "n_workers": w["n_workers"], "max_failures": w["max_failures"],
            "flags": {"async": w["async"], "wait": w["wait"], "swd": w["swd"]},
            "delete_checkpoints": w["delete_checkpoints"], "cb_store": w["store"], "criterion": crit,
            "replay": {"dialogue": w["dialogue"], "ends": w["ends"], "expect": w.get("expect")}}
    raises = [i for i, e in enumerate(w["dialogue"]) if isinstance(e["ans"], dict) and "raise" in e["ans"]]
    if raises:
        spec["inject"] = raises[0]
    return spec


WITNESSES = {  # name -> (theorem, signature the monitors must report on the replay; None: the theorem refutes a bound that
    #                       no monitor reads off, the replay only has to reproduce the run and its final counters)
    "f15": ("SyneTune.C01.notify_polled_counterexample", "c01:trial-never-polled-after-rebind"),
    "clash": ("SyneTune.C01.notify_end_clash_counterexample", "c01:end-notified-twice"),
    "pbt": ("SyneTune.C20Loop.pbt_counterexample", "c20:pbt-source-checkpoint-deleted"),
    # Lemmas/TunerC12bWitness.lean
    "cw": ("SyneTune.C12b.completed_overshoot_counterexample", None),
    "fw": ("SyneTune.C12b.finished_overshoot_counterexample", None),
    "fn": ("SyneTune.C12b.finished_marked_counterexample", None),
    "ev": ("SyneTune.C12b.evals_workers_counterexample", "c12:evaluations-overshoot-beyond-n-workers"),
    "ew": ("SyneTune.C12b.evals_wait_counterexample", None),
    "fr": ("SyneTune.C12b.finished_end_counterexample", "c01:trial-never-polled-after-rebind"),
    "addRaise": ("SyneTune.C01b.started_not_recorded_counterexample", "c12:counters-miss-trial-whose-add-raised"),
}
# further `_counterexample` theorems whose witness is one of the runs above
WITNESS_ALSO = {"SyneTune.C01b.running_count_counterexample": "f15"}


def witness_specs(driver="SyneTune/Drivers/Loop.lean"):
    """asks the model driver for the witnesses of the `_counterexample` theorems and turns them into case specs"""
    from framework import run_driver
    header = {"stream": "loop", "n_workers": 1, "max_failures": 0, "criterion": {}, "key_time": 0, "key_cost": 1,
              "key_tuner_time": 2, "metric_keys": [3], "modes": ["min"]}
    names = sorted(WITNESSES)
    outs = run_driver(driver, [header] + [{"op": "witness", "name": n} for n in names])
    specs = []
    for n, o in zip(names, outs[1:]):
        if "out" not in o:
            raise RuntimeError(f"driver does not know witness {n}: {o}")
        specs.append(witness_spec(n, o["out"]))
    return specs


def monitor_witness(t):
    """a replay run must reproduce its witness call by call, and end with the counters the model ends with"""
    if "witness" not in t["spec"]:
        return []
    why = witness_mismatch(t)
    if why is None:
        return []
    return [F("loop:witness-not-reproduced:" + t["spec"]["witness"],
              f"the real Tuner does not follow the Lean witness {t['spec']['witness']}: {why}")]


def witness_mismatch(t):
    """the recorded dialogue of a replay run against the witness it replays: None if they are the same
    sequence of calls and answers (an exception is an exception, whatever its class) and the final counters of the
    real tuning status / backend are those of the model"""
    if t.get("skipped"):
        return str(t["skipped"])
    want = t["spec"]["replay"]["dialogue"]
    got = [{"call": e["call"], "ans": e["ans"]} for e in t["dlg"].entries]

    def canon(x):
        if isinstance(x.get("ans"), dict) and "raise" in x["ans"]:
            x = {"call": x["call"], "ans": {"raise": "*"}}
        return json.dumps(x, sort_keys=True)

    if len(got) != len(want):
        return f"{len(got)} calls recorded, witness has {len(want)}"
    for i, (g, w) in enumerate(zip(got, want)):
        if canon(g) != canon(w):
            return f"entry {i}: real {canon(g)[:200]} witness {canon(w)[:200]}"
    be, sch = t["backend"], t["scheduler"]
    if be.script_exhausted or sch.script_exhausted or be.polls or be.busy or sch.suggestions or sch.decisions:
        return "the script was not consumed exactly"
    exp = t["spec"]["replay"].get("expect")
    if exp:
        fin = t["final"]
        real = {"started": fin.get("started"), "completed": fin.get("completed"), "failed": fin.get("failed"),
                "finished": fin.get("finished"), "running": fin.get("running"),
                "evaluations": (fin.get("overall") or {}).get("count") if isinstance(fin.get("overall"), dict) else None,
                "backend_trials": len(be.trial_ids), "raised": fin.get("raised") is not None}
        for k, v in exp.items():
            if real.get(k) is not None and real[k] != v:
                return f"final {k}: real {real[k]} model {v}"
    return None


def witness_report(ctx, theorems):
    """for the evidence: theorem -> did this run of the check replay the theorem's witness on the real Tuner, call by call
    and with the model's final counters, and did the monitors report the signature that goes with it (if one does)"""
    seen = {(f.get("spec", {}).get("witness"), f["signature"]) for f in ctx.findings}
    out = {}
    pairs = [(thm, name) for name, (thm, _) in WITNESSES.items()] + list(WITNESS_ALSO.items())
    for thm, name in pairs:
        if thm not in theorems:
            continue
        sig = WITNESSES[name][1]
        ran = ctx.hist.get("witness-replayed:" + name, 0) > 0
        bad = (name, "loop:witness-not-reproduced:" + name) in seen
        ok_sig = sig is None or (name, sig) in seen
        out[thm] = bool(ran and not bad and ok_sig)
    return out


def witness_hist(t):
    """histogram key of a replay case (read by `witness_report`)"""
    name = t["spec"].get("witness")
    return {"witness-replayed:" + name: 1} if name else {}


def make_scheduler(sp, seed, max_t, sim):
    """sp: scheduler part of the spec. Returns (scheduler, uses_max_resource_attr)"""
    kind = sp["kind"]
    mode = sp.get("mode", "min")
    if sim:
        cs = {"a": randint(0, 2), "b": randint(0, 1)}
    else:
        cs = {"x": uniform(0, 1), "k": randint(0, 3)}
    mra = bool(sp.get("max_resource_attr"))
    if mra:
        cs[MAXATTR] = max_t
    if kind == "script":
        names = sp.get("metric_names", [METRIC])
        modes = sp.get("modes", "min")
        return make_script_scheduler(seed, sp.get("params", {}), names, modes, sp.get("ckpt_mixin", False), sim, max_t), False
    if kind == "fifo":
        from syne_tune.optimizer.schedulers.fifo import FIFOScheduler
        so = {"debug_log": False}
        if sp["searcher"] == "bayesopt":
            so["num_init_random"] = 1000
        if sim and sp["searcher"] == "grid":
            pass
        return FIFOScheduler(cs, searcher=sp["searcher"], search_options=so, metric=METRIC, mode=mode, random_seed=seed), False
    if kind == "hb":
        from syne_tune.optimizer.schedulers.hyperband import HyperbandScheduler
        kw = dict(searcher="random", search_options={"debug_log": False}, metric=METRIC, mode=mode, resource_attr=RES,
                  type=sp["type"], grace_period=sp.get("grace_period", 1), reduction_factor=sp.get("reduction_factor", 3),
                  brackets=sp.get("brackets", 1), random_seed=seed)
        if mra:
            kw["max_resource_attr"] = MAXATTR
        else:
            kw["max_t"] = max_t
        if sp["type"] == "cost_promotion":
            kw["cost_attr"] = ST_WORKER_COST
        if sp["type"] in ("rush_stopping", "rush_promotion"):
            kw["rung_system_kwargs"] = {"num_threshold_candidates": 1}
            kw["points_to_evaluate"] = [{k: (v.lower if hasattr(v, "lower") else v) for k, v in cs.items() if hasattr(v, "sample")}]
        if sp.get("early"):  # speculative early checkpoint removal (C20, case kind "early"): kwargs of the removal callback
            kw["early_checkpoint_removal_kwargs"] = dict(sp["early"])
        return HyperbandScheduler(cs, **kw), mra
    if kind == "sync":
        from syne_tune.optimizer.schedulers.synchronous import SynchronousGeometricHyperbandScheduler
        kw = dict(searcher="random", search_options={"debug_log": False}, metric=METRIC, mode=mode, resource_attr=RES,
                  grace_period=1, reduction_factor=sp.get("reduction_factor", 3), brackets=sp.get("brackets"), random_seed=seed)
        if mra:
            kw["max_resource_attr"] = MAXATTR
        else:
            kw["max_resource_level"] = max_t
        return SynchronousGeometricHyperbandScheduler(cs, **kw), mra
    if kind == "dehb":
        from syne_tune.optimizer.schedulers.synchronous import GeometricDifferentialEvolutionHyperbandScheduler
        kw = dict(search_options={"debug_log": False}, metric=METRIC, mode=mode, resource_attr=RES,
                  grace_period=1, reduction_factor=sp.get("reduction_factor", 3), brackets=sp.get("brackets"), random_seed=seed)
        if mra:
            kw["max_resource_attr"] = MAXATTR
        else:
            kw["max_resource_level"] = max_t
        if sp.get("support_pause_resume") is False:
            kw["support_pause_resume"] = False   # non-default: every job is a new trial started from scratch
        return GeometricDifferentialEvolutionHyperbandScheduler(cs, **kw), mra
    if kind == "pbt":
        from syne_tune.optimizer.schedulers.pbt import PopulationBasedTraining
        return PopulationBasedTraining(cs, metric=METRIC, mode=mode, resource_attr=RES, max_t=max_t,
                                       population_size=sp.get("population_size", 3),
                                       perturbation_interval=sp.get("perturbation_interval", 1),
                                       quantile_fraction=sp.get("quantile_fraction", 0.34),
                                       search_options={"debug_log": False}, random_seed=seed), False
    if kind == "moasha":
        from syne_tune.optimizer.schedulers.multiobjective.moasha import MOASHA
        return MOASHA(cs, metrics=[METRIC, METRIC2], mode=sp.get("modes", ["min", "max"]), time_attr=RES, max_t=max_t,
                      grace_period=1, reduction_factor=sp.get("reduction_factor", 3), brackets=sp.get("brackets", 1)), False
    if kind == "median":
        from syne_tune.optimizer.schedulers.fifo import FIFOScheduler
        from syne_tune.optimizer.schedulers.median_stopping_rule import MedianStoppingRule
        base = FIFOScheduler(cs, searcher="random", search_options={"debug_log": False}, metric=METRIC, mode=mode, random_seed=seed)
        return MedianStoppingRule(base, resource_attr=RES, grace_time=sp.get("grace_time", 1),
                                  grace_population=sp.get("grace_population", 2), rank_cutoff=sp.get("rank_cutoff", 0.5)), False
    if kind == "replay":
        return ReplayScheduler(sp["dialogue"], [METRIC], "min"), False
    raise ValueError(kind)


# ---------------------------------------------------------------------------------
# simulator backend


def make_sim_backend(spec, max_t):
    import pandas as pd
    with contextlib.redirect_stdout(io.StringIO()):
        from syne_tune.blackbox_repository.simulated_tabular_backend import UserBlackboxBackend
        from syne_tune.blackbox_repository.blackbox_tabular import BlackboxTabular
        from syne_tune.backend.simulator_backend.simulator_backend import SimulatorConfig
    rng = random.Random(spec["seed"] * 13 + 5)
    d0 = spec.get("sim", {})
    na, nb = d0.get("na", 3), d0.get("nb", 2)
    ncfg, nseed, nfid = na * nb, 2, max_t
    cs = {"a": randint(0, na - 1), "b": randint(0, nb - 1)}
    hp = pd.DataFrame({"a": [c // nb for c in range(ncfg)], "b": [c % nb for c in range(ncfg)]})
    obj = np.zeros((ncfg, nseed, nfid, 3))
    for c in range(ncfg):
        for s in range(nseed):
            el = 0.0
            for f in range(nfid):
                obj[c, s, f, 0] = rng.randrange(0, 256) / 64.0
                obj[c, s, f, 1] = rng.randrange(0, 256) / 64.0
                el += rng.randrange(1, 17) / 16.0
                obj[c, s, f, 2] = el
    bb = BlackboxTabular(hyperparameters=hp, configuration_space=cs, fidelity_space={RES: randint(1, nfid)},
                         objectives_evaluations=obj, fidelity_values=np.arange(1, nfid + 1),
                         objectives_names=[METRIC, METRIC2, "time"])
    d = spec.get("sim", {})
    dl = lambda k: d.get(k, 1) / 16.0
    cfg = SimulatorConfig(delay_on_trial_result=dl("d_result"), delay_complete_after_final_report=max(dl("d_result"), dl("d_complete")),
                          delay_complete_after_stop=dl("d_cstop"), delay_start=dl("d_start"), delay_stop=dl("d_stop"))
    be = UserBlackboxBackend(blackbox=bb, elapsed_time_attr="time", max_resource_attr=MAXATTR if spec["scheduler"].get("max_resource_attr") else None,
                             seed=d.get("bb_seed", 0), support_checkpointing=d.get("support_checkpointing", True),
                             simulator_config=cfg, tuner_sleep_time=d.get("sleep", 2) / 16.0)
    be._time_keeper.real_time_since_last_recent_exit = lambda: 0.0  # real time plays no role: fully deterministic
    # failing training runs: a run fails before its first report (no result at all) or after a few reports
    p0, pk = d.get("p_fail0", 0.0), d.get("p_failk", 0.0)
    if p0 or pk:
        o_run = be._run_job_and_collect_results
        runs = {}

        def run_job(trial_id, config=None):
            status, results = o_run(trial_id, config)
            k = runs[trial_id] = runs.get(trial_id, 0) + 1
            rr = random.Random(spec["seed"] * 7919 + int(trial_id) * 31 + k)
            u = rr.random()
            if u < p0:
                return Status.failed, []
            if u < p0 + pk and results:
                return Status.failed, results[:rr.randrange(1, len(results) + 1)]
            return status, results

        be._run_job_and_collect_results = run_job
    # ground truth for the monitors: the ends of runs which the simulator itself has processed
    be.sim_ends = []
    o_pce = be._process_complete_event

    def pce(trial_id, time_event, status):
        dlg = getattr(be, "dlg_ref", None)
        be.sim_ends.append((len(dlg.entries) - 1 if dlg is not None else -1, int(trial_id), status))
        return o_pce(trial_id=trial_id, time_event=time_event, status=status)

    be._process_complete_event = pce
    # in-memory checkpoints (the simulator never writes any)
    be.ckpt, be.copy_missing, be.deleted = set(), [], []
    be.copy_checkpoint = lambda src_trial_id, tgt_trial_id: None
    be.delete_checkpoint = lambda trial_id: be.deleted.append(trial_id)
    return be


# ---------------------------------------------------------------------------------
# running one scenario


def make_criterion(c):
    kw = {}
    for k, v in c.items():
        if k in ("max_metric_value", "min_metric_value"):
            kw[k] = {name: float(Fraction(x)) for name, x in v.items()}
        elif k in ("max_wallclock_time", "max_cost"):
            kw[k] = float(Fraction(v))
        else:
            kw[k] = int(v)
    return StoppingCriterion(**kw)


def criterion_wire(c, dlg):
    out = {}
    for k, v in c.items():
        if k in ("max_metric_value", "min_metric_value"):
            out[k] = [[dlg.key(name), frac_str(float(Fraction(x)))] for name, x in v.items()]
        elif k in ("max_wallclock_time", "max_cost"):
            out[k] = frac_str(float(Fraction(v)))
        else:
            out[k] = int(v)
    return out


def stat_wire(ms, dlg):
    def d(x):
        return sorted([dlg.key(k), wire_val(v)] for k, v in x.items())
    return {"count": int(ms.count), "min": d(ms.min_metrics), "max": d(ms.max_metrics),
            "is_num": sorted([dlg.key(k), bool(v)] for k, v in ms.is_numeric.items()),
            "_sum": {dlg.key(k): v for k, v in ms.sum_metrics.items()}}


def run_loop(spec):
    """runs the real Tuner on `spec`; returns dict(dialogue, header, final, objects for monitors)"""
    rng = random.Random(spec["seed"])
    tmp = tempfile.mkdtemp(prefix="verif-loop-", dir=os.environ.get("VERIF_SCRATCH"))
    old_env = os.environ.get("SYNETUNE_FOLDER")
    os.environ["SYNETUNE_FOLDER"] = tmp
    old_time = tuning_status_module.time
    dlg = Dialogue(inject_at=spec.get("inject"))
    try:
        sim = spec["backend"] == "sim"
        max_t = spec.get("max_t", 4)
        sp_sched = spec["scheduler"]
        if sp_sched["kind"] == "replay":
            sp_sched = dict(sp_sched, dialogue=spec["replay"]["dialogue"])
        sch, _ = make_scheduler(sp_sched, spec["seed"] % 1000, max_t, sim)
        names = list(sch.metric_names())
        for n in names:
            dlg.key(n)
        if sim:
            be = make_sim_backend(spec, max_t)
        elif spec["backend"] == "replay":
            be = ReplayBackend(spec["replay"]["dialogue"], names[0], delete_checkpoints=bool(spec.get("delete_checkpoints")))
        else:
            bp = dict(spec.get("backend_params", {}))
            bp.setdefault("vseed", spec["seed"] % 997)
            bp.setdefault("metric_names", names if len(names) > 1 else [METRIC])
            be = ScriptBackend(spec["seed"] * 3 + 1, bp, max_t, delete_checkpoints=bool(spec.get("delete_checkpoints")))
        callbacks = []
        rec = Recorder(dlg)
        callbacks.append(rec)
        store = None
        if sim:
            from syne_tune.backend.simulator_backend.simulator_callback import SimulatorCallback
            store = SimulatorCallback()
            callbacks.append(store)
        elif spec.get("cb_store", True):
            store = StoreResultsCallback()
            callbacks.append(store)
        if store is not None and spec.get("store_every"):
            def mid_load():
                with contextlib.redirect_stdout(io.StringIO()), contextlib.redirect_stderr(io.StringIO()):
                    _load_experiment_fn()("t", download_if_not_found=False)
            rec.mid_load = mid_load
        crit = make_criterion(spec["criterion"])
        flags = spec.get("flags", {})
        tuning_status_module.time = ClockStub(dlg, random.Random(spec["seed"] + 99), spec.get("clock_step", 0.25))
        wrap_scheduler(sch, dlg)
        wrap_backend(be, dlg)
        if sim:
            dlg.probe = lambda: len(be._busy_trial_ids)
            be.dlg_ref = dlg
        else:
            be.dlg = dlg
            dlg.probe = be.occupancy
        tuner = Tuner(
            trial_backend=be, scheduler=sch, stop_criterion=crit, n_workers=spec["n_workers"], sleep_time=0,
            results_update_interval=-1 if spec.get("store_every") else 3600, print_update_interval=3600,
            max_failures=spec.get("max_failures", 1), tuner_name="t", asynchronous_scheduling=flags.get("async", True),
            wait_trial_completion_when_stopping=flags.get("wait", False), callbacks=callbacks, suffix_tuner_name=False,
            save_tuner=False, start_jobs_without_delay=flags.get("swd", True),
        )
        o_stopc = tuner._stop_condition
        # the criterion the user gave, without its wall-clock part (which callbacks may move onto another clock)
        user_nowall = make_criterion({k_: v_ for k_, v_ in spec["criterion"].items() if k_ != "max_wallclock_time"})
        rec.crit_user = []

        def stop_condition():
            v = o_stopc()
            rec.crit_trace.append((len(dlg.entries), bool(v)))
            ts_now = tuner.tuning_status
            if ts_now is not None:
                try:
                    rec.crit_user.append((len(dlg.entries), bool(v), bool(user_nowall(ts_now))))
                except Exception:  # noqa
                    pass
                rec.crit_status.append((len(dlg.entries), bool(v), dict(ts_now.last_trial_status_seen),
                                        int(ts_now.overall_metric_statistics.count)))
            return v

        tuner._stop_condition = stop_condition
        o_sched = tuner._schedule_new_tasks

        def schedule_new_tasks(running_trials_ids):
            rec.sched_running.append((len(dlg.entries), len(running_trials_ids)))
            return o_sched(running_trials_ids=running_trials_ids)

        tuner._schedule_new_tasks = schedule_new_tasks
        ckpt_cb = any(type(c).__name__ == "RemoveCheckpointsCallback" for c in tuner.callbacks)
        other_cb = [type(c).__name__ for c in tuner.callbacks[len(callbacks):] if type(c).__name__ != "RemoveCheckpointsCallback"]
        raised, raised_obj = None, None
        with contextlib.redirect_stdout(io.StringIO()):
            try:
                tuner.run()
            except Runaway as ex:
                tail = [e["call"] for e in dlg.entries[-12:]]
                err = RuntimeError(f"tuning loop does not end ({ex}); last calls {tail}")
                err.dlg = dlg
                raise err
            except BaseException as ex:  # noqa
                raised = type(ex).__name__ + (":" + str(ex) if isinstance(ex, ValueError) and "failed" in str(ex) else "")
                raised_obj = ex
        dlg.active = False
        skipped = None
        if dlg.unlinearisable:
            # a call of the REAL backend / scheduler raised by itself after nested recorded calls had returned: there is no
            # alternating call/answer order for the model to follow.  The case is skipped (header line only, no monitors)
            # and counted in the histogram (`skipped:unlinearisable`)
            skipped = "unlinearisable: " + dlg.unlinearisable
        ts = tuner.tuning_status
        mode = sch.metric_mode()
        final = {"raised": raised}
        if ts is not None:
            from syne_tune.tuning_status import print_best_metric_found
            with contextlib.redirect_stdout(io.StringIO()):
                b0 = print_best_metric_found(ts, names, mode)
                bests = []
                for i in range(len(names)):
                    try:
                        bests.append([int(tuner.best_config(metric=i)[0])])
                    except TypeError:  # print_best_metric_found returned None (no results)
                        bests.append(None)
            final.update({
                "started": int(ts.num_trials_started), "completed": int(ts.num_trials_completed),
                "failed": int(ts.num_trials_failed), "finished": int(ts.num_trials_finished),
                "running": int(ts.num_trials_running),
                "last": [[int(t), s] for t, s in ts.last_trial_status_seen.items()],
                "overall": stat_wire(ts.overall_metric_statistics, dlg),
                "per_trial": [[int(t), stat_wire(ms, dlg)] for t, ms in ts.trial_metric_statistics.items()],
                "best0": None if b0 is None else [int(b0[0]), wire_val(b0[1])],
                "best": bests,
                "cost": frac_str(float(ts.cost)) if not isinstance(ts.cost, int) or True else None,
            })
        rows = None
        if store is not None:
            rows = list(store.results)
        header = {
            "stream": "loop", "n_workers": spec["n_workers"], "max_failures": spec.get("max_failures", 1),
            "async": flags.get("async", True), "wait": flags.get("wait", False), "swd": flags.get("swd", True),
            "delete_checkpoints": bool(be.delete_checkpoints), "ckpt_cb": ckpt_cb, "store": store is not None, "store_every": bool(spec.get("store_every")),
            "sim_callback": sim, "criterion": criterion_wire(spec["criterion"], dlg),
            "key_time": dlg.keys[ST_WORKER_TIME], "key_cost": dlg.keys[ST_WORKER_COST], "key_tuner_time": dlg.keys[ST_TUNER_TIME],
            "metric_keys": [dlg.key(n) for n in names], "modes": mode if isinstance(mode, list) else [mode] * 1,
            "mode_is_list": isinstance(mode, list),
        }
        sp = spec["scheduler"]
        label = sp["kind"] + (":" + sp["type"] if "type" in sp else "") + (":" + sp["searcher"] if "searcher" in sp else "")
        return {"dlg": dlg, "header": header, "final": final, "rows": rows, "tuner": tuner, "backend": be, "scheduler": sch,
                "sched_label": label, "spec_criterion": spec["criterion"], "spec": spec,
                "recorder": rec, "names": names, "tmp": tmp, "other_cb": other_cb, "store": store,
                "raised_obj": raised_obj, "skipped": skipped}
    finally:
        tuning_status_module.time = old_time
        if old_env is None:
            os.environ.pop("SYNETUNE_FOLDER", None)
        else:
            os.environ["SYNETUNE_FOLDER"] = old_env


def cleanup(t):
    shutil.rmtree(t["tmp"], ignore_errors=True)


# ---------------------------------------------------------------------------------
# line protocol


def classify_raised(t):
    ex = t["raised_obj"]
    if ex is None:
        return None
    if id(ex) in t["dlg"]._attributed:
        return "env"
    import re
    msg = str(ex)
    if isinstance(ex, ValueError):
        m = re.match(r"Trial - (\d+) failed", msg)
        if m:
            return "failed:" + m.group(1)
        m = re.match(r"trial (\d+) completed and no metrics got observed", msg)
        if m:
            return "no-metrics:" + m.group(1)
    if isinstance(ex, AssertionError):
        return "assertion"
    if isinstance(ex, KeyError):
        return "key-error"
    return "other:" + type(ex).__name__


def rows_wire(t):
    """rows of the real StoreResultsCallback as [tid, rid, cfg-token, decision, status]; the rid of row k is
    the rid of the k-th `cb result` event that returned (content equality is checked by monitor_c17)"""
    if t["rows"] is None:
        return None
    dlg = t["dlg"]
    rids = [e["call"][3] for e in dlg.entries if e["call"][:2] == ["cb", "result"] and e["ans"] == {"ret": True}]
    out = []
    for i, row in enumerate(t["rows"]):
        cfg = {k[len("config_"):]: v for k, v in row.items() if k.startswith("config_")}
        tok = None
        for j, c in enumerate(dlg.cfgs):
            if same_config(c, cfg):
                tok = j
                break
        out.append([int(row[ST_TRIAL_ID]), rids[i] if i < len(rids) else -1, tok, row[ST_DECISION], row[ST_STATUS]])
    return out


def to_lines(t, view=None):
    dlg = t["dlg"]
    entries = dlg.entries
    final = dict(t["final"])
    final["raised"] = classify_raised(t)
    final["rows"] = rows_wire(t)
    final["best_rows"] = best_rows_wire(t, view) if view is not None else None
    lines = [(t["header"], {"call": entries[0]["call"]})]
    if t.get("skipped"):
        return lines  # header line only: the dialogue has no alternating order for the model to follow
    for i, e in enumerate(entries):
        if i + 1 < len(entries):
            impl = {"call": entries[i + 1]["call"]}
        else:
            impl = {"call": ["exit"], "final": final}
        lines.append(({"op": "ans", "ans": e["ans"], "_of": e["call"]}, impl))
    return lines


def _close(a, b):
    """model exact value (wire) vs implementation float"""
    if isinstance(a, str) and a in ("nan", "inf", "-inf"):
        fb = float(b)
        return (a == "nan" and math.isnan(fb)) or (a == "inf" and fb == math.inf) or (a == "-inf" and fb == -math.inf)
    fa = float(Fraction(a))
    fb = float(b)
    if math.isnan(fb) or math.isinf(fb):
        return False
    return abs(fa - fb) <= 1e-9 * max(1.0, abs(fa), abs(fb))


def _cmp_stat(where, impl, model):
    for k in ("count", "min", "max", "is_num"):
        if impl[k] != model[k]:
            return f"{where}.{k}: impl {impl[k]} model {model[k]}"
    ms = {int(k): v for k, v in model["sum"]}
    isum = {int(k): v for k, v in impl["_sum"].items()}
    if set(ms) != set(isum):
        return f"{where}.sum keys: impl {sorted(isum)} model {sorted(ms)}"
    for k in ms:
        if not _close(ms[k], isum[k]):
            return f"{where}.sum[{k}]: impl {isum[k]} model {ms[k]}"
    return None


def compare(inp, impl, model):
    if impl is None:
        return None
    if inp.get("op") == "mode_lookup":
        from framework import default_compare
        return default_compare(inp, impl, model)
    if "err" in model:
        return f"model error {model['err']}"
    mo = model.get("out", {})
    if mo.get("call") != impl["call"]:
        return f"next call: impl {impl['call']} model {mo.get('call')}"
    if "final" in impl:
        fi, fm = impl["final"], mo.get("final")
        if fm is None:
            return "model gave no final summary"
        ri, rm = fi["raised"], fm["raised"]
        if ri != rm and not (rm == "env" and ri is not None and ri.startswith("other:")):
            return f"raised: impl {ri} model {rm}"
        if "started" not in fi:
            return None
        for k in ("started", "completed", "failed", "finished", "running", "last", "best0", "best"):
            if fi[k] != fm[k]:
                return f"final.{k}: impl {fi[k]} model {fm[k]}"
        d = _cmp_stat("overall", fi["overall"], fm["overall"])
        if d:
            return d
        if [t for t, _ in fi["per_trial"]] != [t for t, _ in fm["per_trial"]]:
            return f"per_trial order: impl {[t for t, _ in fi['per_trial']]} model {[t for t, _ in fm['per_trial']]}"
        for (t, a), (_, b) in zip(fi["per_trial"], fm["per_trial"]):
            d = _cmp_stat(f"trial[{t}]", a, b)
            if d:
                return d
        if not _close(fm["cost"], float(Fraction(fi["cost"])) if fi["cost"] not in ("nan", "inf", "-inf") else float(fi["cost"])):
            return f"cost: impl {fi['cost']} model {fm['cost']}"
        if fi["rows"] is not None and fi["rows"] != fm["rows"]:
            return f"rows: impl {fi['rows'][:6]} model {fm['rows'][:6]} (lengths {len(fi['rows'])}/{len(fm['rows'])})"
        if fi["rows"] is None and fm["rows"]:
            return "model has rows without a StoreResultsCallback"
        if fi.get("best_rows") is not None and fi["best_rows"] != fm["best_rows"]:
            return f"best rows of the stored table: impl {fi['best_rows']} model {fm['best_rows']}"
    return None


# ---------------------------------------------------------------------------------
# generator


HB_TYPES = ["stopping", "promotion", "pasha", "cost_promotion", "rush_stopping", "rush_promotion"]
INTERESTING = {"be.stop", "be.pause", "be.resume", "be.delete", "be.copy", "be.busy", "sched.complete", "sched.error",
               "sched.removable", "cb.sleep", "be.stdout", "clock"}


def gen_scheduler(rng, sim):
    u = rng.random()
    if u < 0.34:
        multi = rng.random() < 0.3
        sp = {"kind": "script", "params": {
            "p_stop": rng.choice([0.0, 0.1, 0.25]), "p_pause": rng.choice([0.0, 0.1, 0.25]),
            "p_resume": rng.choice([0.2, 0.5]), "p_ckpt": rng.choice([0.0, 0.2]),
            "max_suggest": rng.choice([None, None, 3, 6, 12]), "p_removable": rng.choice([0.0, 0.3])},
            "ckpt_mixin": rng.random() < 0.5}
        if multi:
            sp["metric_names"] = [METRIC, METRIC2]
            sp["modes"] = rng.choice([["min", "max"], ["max", "min"], "min", "max"])
        else:
            sp["modes"] = rng.choice(["min", "max"])
        return sp
    mode = rng.choice(["min", "max"])
    kinds = ["fifo"] * 3 + ["hb"] * 6 + ["sync", "sync", "dehb", "pbt", "pbt", "moasha", "median"]
    k = rng.choice(kinds)
    sp = {"kind": k, "mode": mode}
    if k == "fifo":
        sp["searcher"] = rng.choice(["random", "grid", "bayesopt"]) if sim else rng.choice(["random", "bayesopt"])
    elif k == "hb":
        sp["type"] = rng.choice(HB_TYPES)
        sp["reduction_factor"] = rng.choice([2, 3])
        sp["brackets"] = rng.choice([1, 1, 2])
        sp["max_resource_attr"] = rng.random() < 0.4 and sp["type"] not in ("pasha",)
    elif k in ("sync", "dehb"):
        sp["reduction_factor"] = rng.choice([2, 3])
        sp["brackets"] = rng.choice([None, 1, 2])
        sp["max_resource_attr"] = rng.random() < 0.4
        if k == "dehb" and rng.random() < 0.4:
            sp["support_pause_resume"] = False
    elif k == "pbt":
        sp["population_size"] = rng.choice([2, 3, 4])
        sp["perturbation_interval"] = rng.choice([1, 2, 2, 3])
        sp["quantile_fraction"] = rng.choice([0.25, 0.34, 0.5])
    elif k == "moasha":
        sp["modes"] = rng.choice([["min", "max"], ["min", "min"], ["max", "max"]])
        sp["reduction_factor"] = rng.choice([2, 3])
    elif k == "median":
        sp["grace_population"] = rng.choice([1, 2, 3])
    return sp


def gen_criterion(rng, sim, style):
    c = {}
    fields = ["max_num_trials_started", "max_num_trials_completed", "max_num_trials_finished", "max_num_evaluations",
              "max_wallclock_time", "max_metric_value", "min_metric_value"]
    if style in ("cost", "rich") and not sim:
        fields.append("max_cost")
    for f in rng.sample(fields, rng.choice([1, 1, 2, 3])):
        if f == "max_num_trials_started":
            c[f] = rng.randint(0, 9)
        elif f in ("max_num_trials_completed", "max_num_trials_finished"):
            c[f] = rng.randint(0, 5)
        elif f == "max_num_evaluations":
            c[f] = rng.randint(0, 25)
        elif f == "max_wallclock_time":
            c[f] = frac_str(rng.randint(1, 24) / 4.0)
        elif f == "max_cost":
            c[f] = frac_str(rng.randint(1, 40) / 8.0)
        elif f == "max_metric_value":
            c[f] = {rng.choice([METRIC, RES, AUX]): frac_str(rng.randint(2, 14) / 4.0)}
        else:
            c[f] = {rng.choice([METRIC, AUX]): frac_str(rng.randint(0, 8) / 4.0)}
    # backstop so that every run ends
    if not any(k in c for k in ("max_num_trials_started", "max_num_evaluations", "max_wallclock_time")):
        c["max_num_evaluations"] = rng.randint(20, 40)
    return c


def gen_sim_combined(rng, tier):
    """simulator runs whose criterion combines a (generous) wall-clock budget with one field of every other kind; the
    other field is what ends the run"""
    while True:
        spec = gen_spec(rng, tier)
        if spec["backend"] == "sim":
            break
    other = rng.choice(["max_num_trials_finished", "max_num_trials_finished", "max_num_trials_completed", "max_num_trials_started",
                        "max_num_evaluations", "max_metric_value", "max_metric_value", "min_metric_value", "min_metric_value"])
    crit = {"max_wallclock_time": frac_str(rng.randint(60, 120) / 2.0)}
    if other == "max_metric_value":
        crit[other] = {rng.choice([METRIC, METRIC2]): frac_str(rng.randint(8, 14) / 4.0)}
    elif other == "min_metric_value":
        crit[other] = {rng.choice([METRIC, METRIC2]): frac_str(rng.randint(2, 8) / 4.0)}
    else:
        crit[other] = rng.randint(1, 4)
    crit["max_num_trials_started"] = crit.get("max_num_trials_started", 12)  # backstop
    spec["criterion"] = crit
    spec["inject"] = None
    if other in ("max_num_trials_finished", "max_num_trials_completed"):
        spec["sim"]["p_failk"] = 0.3   # finished and completed counts differ
    return spec


def gen_spec(rng, tier, text_metric=False):
    sim = rng.random() < 0.22
    sp = gen_scheduler(rng, sim)
    style = rng.choice(["plain", "plain", "cost", "rich"])
    if sp["kind"] == "hb" and sp.get("type") == "cost_promotion":
        style = "cost"
    swd = rng.random() < 0.6
    spec = {
        "seed": rng.randrange(10 ** 9),
        "backend": "sim" if sim else "script",
        "scheduler": sp,
        "n_workers": rng.randint(1, 5),
        "max_t": rng.choice([3, 4, 6, 9]),
        "flags": {"async": rng.random() < 0.8, "wait": rng.random() < 0.3, "swd": swd},
        "criterion": gen_criterion(rng, sim, style),
        "max_failures": rng.choice([0, 1, 1, 2, 3]),
        "delete_checkpoints": (not sim) and rng.random() < 0.5,
        "cb_store": rng.random() < 0.85,
        "store_every": rng.random() < 0.1,
        "inject": rng.randrange(1, 160) if rng.random() < 0.15 else None,
        "clock_step": rng.choice([0.25, 0.5, 1.0]),
    }
    if sim:
        spec["sim"] = {"d_result": rng.randint(0, 2), "d_complete": rng.randint(0, 3), "d_cstop": rng.randint(0, 2),
                       "d_start": rng.randint(0, 2), "d_stop": rng.randint(0, 2), "sleep": rng.randint(1, 8),
                       "bb_seed": rng.randint(0, 1), "support_checkpointing": rng.random() < 0.8,
                       "p_fail0": rng.choice([0.0, 0.0, 0.15]), "p_failk": rng.choice([0.0, 0.0, 0.15])}
        if rng.random() < 0.3:
            # the simulator callback rewrites a wall-clock criterion onto simulated time: the other fields of a combined
            # criterion must survive the rewrite (a generous wall-clock budget, a count-based budget that binds first)
            spec["criterion"] = {"max_wallclock_time": frac_str(rng.randint(40, 80) / 2.0),
                                 rng.choice(["max_num_trials_finished", "max_num_trials_completed", "max_num_trials_started",
                                             "max_num_evaluations"]): rng.randint(1, 5)}
            if rng.random() < 0.3:
                spec["criterion"]["max_metric_value"] = {METRIC: frac_str(3.5)}
        if rng.random() < 0.3:
            # long simulated runs: several workers, a table large enough for dozens of trials, many events of different
            # trials interleaved in the simulator's queue when one of them is stopped or paused
            spec["sim"].update({"na": 8, "nb": 5})
            if rng.random() < 0.7:  # schedulers that stop trials early, no simulator delays
                for _ in range(50):
                    sp = gen_scheduler(rng, sim)
                    if sp["kind"] in ("median", "moasha") or (sp["kind"] == "hb" and "stopping" in sp.get("type", "")):
                        break
                spec["scheduler"] = sp
                spec["sim"].update({"d_result": 0, "d_complete": 0, "d_cstop": 0, "d_start": 0, "d_stop": 0})
            spec["n_workers"] = rng.randint(3, 5)
            spec["max_t"] = 9
            spec["criterion"] = {"max_num_trials_started": rng.randint(20, 36)}
            spec["inject"] = None
    else:
        real = sp["kind"] != "script"
        spec["backend_params"] = {
            "p_fail": rng.choice([0.0, 0.0, 0.15, 0.3]),
            "p_extstop": rng.choice([0.0, 0.0, 0.1]),
            "max_batch": rng.randint(1, 3),
            "p_end_same_poll": rng.choice([0.0, 0.5, 1.0]),
            "stop_delay": 0 if swd else rng.choice([0, 0, 1, 2]),
            "p_finish_at_busy": 0.0 if swd else rng.choice([0.0, 0.0, 0.3]),
            "style": style,
            "nan_metric": (not real or sp["kind"] == "fifo" and sp.get("searcher") == "random") and style == "rich" and rng.random() < 0.5,
            "short_runs": None if real else rng.choice([None, 1, 2]),
        }
        # metric thresholds crossed exactly at the value 0
        if rng.random() < 0.12:
            if rng.random() < 0.5:
                spec["backend_params"]["vstyle"] = "zero-min"
                spec["criterion"] = {"min_metric_value": {METRIC: frac_str(0.5)}, "max_num_evaluations": rng.randint(25, 40)}
            else:
                spec["backend_params"]["vstyle"] = "zero-max"
                spec["criterion"] = {"max_metric_value": {METRIC: frac_str(-0.5)}, "max_num_evaluations": rng.randint(25, 40)}
        if not real and sp.get("metric_names") and text_metric:
            spec["backend_params"]["text_metric"] = True
    return spec


def call_kinds(t):
    out = set()
    for e in t["dlg"].entries:
        c = e["call"]
        out.add(c[0] if len(c) == 1 else c[0] + "." + c[1])
    return sorted(out)


def decisive_fields(t):
    """which atoms of the criterion hold on the final status (direct reading of StoppingCriterion)"""
    ts = t["tuner"].tuning_status
    out = []
    if ts is None:
        return out
    c = t["spec_criterion"]
    ov = ts.overall_metric_statistics
    if "max_num_trials_started" in c and ts.num_trials_started > c["max_num_trials_started"]:
        out.append("max_num_trials_started")
    if "max_num_trials_completed" in c and ts.num_trials_completed > c["max_num_trials_completed"]:
        out.append("max_num_trials_completed")
    if "max_num_trials_finished" in c and ts.num_trials_finished > c["max_num_trials_finished"]:
        out.append("max_num_trials_finished")
    if "max_num_evaluations" in c and ov.count > c["max_num_evaluations"]:
        out.append("max_num_evaluations")
    if "max_cost" in c and ts.cost > float(Fraction(c["max_cost"])):
        out.append("max_cost")
    if "max_wallclock_time" in c:
        out.append("max_wallclock_time?")
    for k, above in (("max_metric_value", True), ("min_metric_value", False)):
        if k in c and ov.count > 0:
            obs = ov.max_metrics if above else ov.min_metrics
            for name, thr in c[k].items():
                if name in obs and ((obs[name] > float(Fraction(thr))) if above else (obs[name] < float(Fraction(thr)))):
                    out.append(k)
    return out


def histogram(t):
    h = {}
    if t.get("skipped"):
        h["skipped:" + str(t["skipped"]).split(":")[0]] = 1
    for k in call_kinds(t):
        h["call:" + k] = 1
    h["backend:" + ("sim" if t["header"]["sim_callback"] else "script")] = 1
    h["sched:" + t["sched_label"]] = 1
    for f in ("async", "wait", "swd", "delete_checkpoints", "ckpt_cb", "store"):
        h[f"{f}={t['header'][f]}"] = 1
    h["exit:" + str(classify_raised(t)).split(":")[0]] = 1
    for f in decisive_fields(t):
        h["criterion-true-at-exit:" + f] = 1
    h["n_calls"] = len(t["dlg"].entries)
    if t["dlg"].cut:
        h["loop-cut-after-%d-calls" % CUT_AT] = 1
    for e in t["dlg"].entries:
        a = e["ans"]
        if isinstance(a, dict) and "d" in a:
            h["decision:" + str(a["d"])] = h.get("decision:" + str(a["d"]), 0) + 1
        if isinstance(a, dict) and a.get("kind"):
            h["suggestion:" + a["kind"] + ("+ckpt" if a.get("ckpt") is not None else "")] = h.get("suggestion:" + a["kind"] + ("+ckpt" if a.get("ckpt") is not None else ""), 0) + 1
        if isinstance(a, dict) and "results" in a:
            for _, st in a["status"]:
                h["polled:" + st] = h.get("polled:" + st, 0) + 1
        if isinstance(a, dict) and "raise" in a and a["raise"] != "InjectedError":
            # exceptions raised by the real scheduler / backend themselves (incl. the watchdog's SchedulerTimeout)
            k = "env-raised:" + "/".join(str(x) for x in e["call"][:2]) + ":" + str(a["raise"])
            h[k] = h.get(k, 0) + 1
    if any(x is not None for x in [t["dlg"].inject_at]) and any(e["ans"] == {"raise": "InjectedError"} for e in t["dlg"].entries):
        h["injected-exception-hit"] = 1
    return h


# ---------------------------------------------------------------------------------
# monitors: direct readings of the property statements on the recorded dialogue


def F(sig, what, detail=None):
    return {"signature": sig, "what": what, "detail": detail}


def _calls(t):
    return [(i, e["call"], e["ans"]) for i, e in enumerate(t["dlg"].entries)]


def is_pbt(t):
    return type(t["scheduler"]).__name__ == "PopulationBasedTraining" or t["spec"].get("witness") == "pbt"


def monitor_k(t):
    """contract K of the scheduler, monitored on every trace"""
    if t.get("skipped"):
        return []
    out = []
    state = {}  # trial -> "live" | "paused" | "dead" | "failed"
    starts = 0
    for i, c, a in _calls(t):
        if c[:2] == ["sched", "result"] and isinstance(a, dict) and "d" in a:
            d = a["d"]
            if d not in ("CONTINUE", "PAUSE", "STOP"):
                out.append(F("c01:scheduler-contract-K:bad-decision", f"on_trial_result returned {d!r}", {"call": i}))
            elif d == "PAUSE":
                if state.get(c[2]) != "failed":
                    state[c[2]] = "paused"
            elif d == "STOP":
                state[c[2]] = "dead"
        elif c[:2] == ["sched", "error"]:
            state[c[2]] = "failed"
        elif c[:2] == ["sched", "complete"]:
            state[c[2]] = "dead"
        elif c[:2] == ["be", "start"] and a == {"ret": True}:
            starts += 1
            state[c[2]] = "live"
        elif c[:2] == ["sched", "suggest"] and isinstance(a, dict):
            if a.get("kind") == "resume":
                st = state.get(a["id"])
                if st == "failed":
                    out.append(F("c01:scheduler-contract-K:resume-after-failure",
                                 f"scheduler {t['sched_label']} resumes trial {a['id']} after its failure", {"call": i}))
                elif st != "paused":
                    out.append(F("c01:scheduler-contract-K:resume-not-paused",
                                 f"scheduler {t['sched_label']} resumes trial {a['id']} whose last decision was not PAUSE (state {st})", {"call": i}))
                state[a["id"]] = "live"
            elif a.get("kind") == "start" and a.get("ckpt") is not None and not (0 <= a["ckpt"] < starts):
                out.append(F("c01:scheduler-contract-K:ckpt-unknown-trial",
                             f"scheduler {t['sched_label']} warm-starts from trial {a['ckpt']} which was never started", {"call": i}))
    return out


LEGAL_EDGE = {
    None: {Status.in_progress},
    Status.in_progress: {Status.in_progress, Status.paused, Status.stopped, Status.stopping, Status.completed, Status.failed},
    Status.stopping: {Status.stopping, Status.stopped, Status.completed, Status.failed},
    Status.paused: {Status.paused, Status.in_progress},
    Status.stopped: {Status.stopped},
    Status.completed: {Status.completed},
    Status.failed: {Status.failed},
}


def monitor_c01(t):
    if t.get("skipped"):
        return []
    out = []
    k_violated = bool(monitor_k(t))  # lifecycle / resume clauses are guarantees of the loop UNDER contract K
    n = t["header"]["n_workers"]
    calls = _calls(t)
    # budget: trials occupying workers (backend truth) and the polled set
    for i, c, a in calls:
        occ = t["dlg"].entries[i].get("_occ")
        if occ is not None and occ > n:
            d_start = (t["spec"].get("sim") or {}).get("d_start", 0)
            if t["header"]["sim_callback"] and not (not t["header"]["swd"] and d_start > 0):
                # (the recorded finding needs start_jobs_without_delay=False and a start delay: anything else is new)
                out.append(F("c01:budget-exceeded:simulator", f"{occ} trials occupy simulated workers with n_workers={n} "
                             f"(start_jobs_without_delay={t['header']['swd']}, delay_start={d_start})", {"call": i}))
            elif t["header"]["sim_callback"]:
                out.append(F("c01:budget-exceeded:simulator-busy-list",
                             f"{occ} trials occupy simulated workers with n_workers={n} (start_jobs_without_delay={t['header']['swd']}): "
                             f"SimulatorBackend.busy_trial_ids omits trials that are scheduled but whose StartEvent has not fired yet",
                             {"call": i}))
            else:
                out.append(F("c01:budget-exceeded", f"{occ} trials occupy workers with n_workers={n}", {"call": i}))
            break
        if c[:2] == ["be", "fetch"] and (len(c[2]) > n or len(set(c[2])) != len(c[2])):
            out.append(F("c01:budget-exceeded", f"running set {c[2]} with n_workers={n}", {"call": i}))
    # simulator: the end of a run which the simulator has processed during a poll is visible in that poll
    for idx, tid, st in getattr(t["backend"], "sim_ends", []):
        if 0 <= idx < len(t["dlg"].entries):
            e = t["dlg"].entries[idx]
            if e["call"][:2] == ["be", "fetch"] and isinstance(e["ans"], dict) and tid in e["call"][2]:
                seen = dict((a_, b_) for a_, b_ in e["ans"].get("status", []))
                if seen.get(tid) == Status.in_progress:
                    out.append(F("c01:simulator-end-not-visible", f"the simulator processed the end ({st}) of trial {tid} during a poll which "
                                 f"still reports the trial as in progress: the loop never learns that this run is over", {"call": idx}))
                    break
            break
    # ids
    starts = 0
    for i, c, a in calls:
        if c[:2] == ["sched", "suggest"] and c[2] != starts:
            out.append(F("c01:id-sequence", f"suggest called with trial_id {c[2]} after {starts} starts", {"call": i}))
        if c[:2] == ["be", "start"]:
            if c[2] != starts:
                out.append(F("c01:id-sequence", f"start number {starts} carries id {c[2]}", {"call": i}))
            if a == {"ret": True}:
                starts += 1
    # lifecycle on the statuses the loop records (snapshots after every iteration, then the final one)
    seq = {}
    snaps = list(t["recorder"].snapshots)
    ts = t["tuner"].tuning_status
    if ts is not None:
        snaps.append(dict(ts.last_trial_status_seen))
    for snap in snaps:
        for tid, st in snap.items():
            prev = seq.get(tid)
            if st not in LEGAL_EDGE.get(prev, set()) and not (k_violated and st == Status.in_progress):
                out.append(F("c01:illegal-status-edge", f"trial {tid} moved {prev} -> {st}", None))
            seq[tid] = st
    # only a paused trial is resumed
    for idx, tid, st in t["dlg"].resume_status:
        if st != Status.paused and not k_violated:
            out.append(F("c01:resume-of-non-paused", f"resume_trial({tid}) while its backend status is {st}", {"call": idx}))
    # notifications: add/resume, results, exactly one end, nothing afterwards
    open_run = {}  # trial -> "open" | "closed"
    last_fetch = max([i for i, c, a in calls if c[:2] == ["be", "fetch"]], default=-1)
    polled = {}
    run_start = {}
    for i, c, a in calls:
        if c[:2] == ["sched", "add"]:
            if c[2] in open_run:
                out.append(F("c01:notify-add-twice", f"on_trial_add twice for trial {c[2]}", {"call": i}))
            open_run[c[2]] = "open"
            run_start[c[2]] = i
        elif c[:2] == ["be", "resume"] and a == {"ret": True}:
            if open_run.get(c[2]) == "open":
                out.append(F("c01:resume-of-open-run", f"trial {c[2]} resumed while its run is open", {"call": i}))
            open_run[c[2]] = "open"
            run_start[c[2]] = i
        elif c[:2] == ["sched", "result"]:
            if open_run.get(c[2]) != "open":
                out.append(F("c01:result-after-end", f"on_trial_result for trial {c[2]} outside a run", {"call": i}))
        elif c[0] == "sched" and c[1] in ("remove", "complete", "error"):
            if open_run.get(c[2]) != "open":
                out.append(F("c01:end-notified-twice",
                             f"on_trial_{c[1]} for trial {c[2]} whose run end was already notified", {"call": i}))
            open_run[c[2]] = "closed"
        elif c[:2] == ["be", "fetch"]:
            for tid in c[2]:
                polled.setdefault(tid, []).append(i)
    # every end of a run that became visible before the last poll is notified
    be = t["backend"]
    if isinstance(be, ScriptBackend):
        fetches = [i for i, c, a in calls if c[:2] == ["be", "fetch"]]
        # polls whose results and statuses were processed to the end (`_update_running_trials` returned): no exception
        # between the poll and the next one / the end of the loop
        processed = set()
        loop_raised = classify_raised(t) in ("no-metrics", "key-error", "assertion") or str(classify_raised(t)).startswith(("no-metrics", "other"))
        for k, i in enumerate(fetches):
            j = fetches[k + 1] if k + 1 < len(fetches) else len(calls)
            seg = calls[i:j]
            cut = next((x for x, (_, c, _) in enumerate(seg) if c == ["cb", "tuning_end"]), None)
            body = seg if cut is None else seg[:cut]
            raised_in = any(isinstance(a, dict) and "raise" in a for _, _, a in body)
            if not raised_in and not (cut is not None and loop_raised) and not (cut is None and j == len(calls)):
                processed.add(i)
        for tid, tr in be.truth.items():
            if open_run.get(tid) != "open":
                continue
            after_start = [i for i in fetches if i > run_start.get(tid, -1)]
            if after_start and all(tid not in t["dlg"].entries[i]["call"][2] for i in after_start):
                out.append(F("c01:trial-never-polled-after-rebind",
                             f"trial {tid} ({tr['status']}) was started but is missing from every later poll "
                             f"(start_jobs_without_delay={t['header']['swd']}): its results and its end never reach the scheduler",
                             {"trial": tid, "ended_at": tr.get("ended_at")}))
                continue
            ended = tr.get("ended_at")
            if ended is None:
                continue
            later_polls = [i for i in range(ended + 1, last_fetch + 1)
                           if t["dlg"].entries[i]["call"][:2] == ["be", "fetch"] and i in processed]
            if not later_polls:
                continue
            was_polled = any(i > run_start.get(tid, -1) for i in polled.get(tid, []))
            if not was_polled or all(tid not in t["dlg"].entries[i]["call"][2] for i in later_polls):
                out.append(F("c01:trial-never-polled-after-rebind",
                             f"trial {tid} ({tr['status']}) was started but is missing from every later poll "
                             f"(start_jobs_without_delay={t['header']['swd']}): its results and its end never reach the scheduler",
                             {"trial": tid, "ended_at": ended}))
            else:
                out.append(F("c01:end-never-notified", f"end of trial {tid} ({tr['status']}) never told to the scheduler", {"trial": tid}))
    return out


def monitor_c13_loop(t):
    if t.get("skipped"):
        return []
    out = []
    calls = _calls(t)
    raised = classify_raised(t)
    # one on_trial_error per failed / externally stopped run
    sched_stopped = set()
    i = 0
    while i < len(calls):
        idx, c, a = calls[i]
        if c[:2] == ["be", "fetch"] and isinstance(a, dict) and "status" in a:
            j = i + 1
            seg = []
            while j < len(calls) and calls[j][1][:2] != ["be", "fetch"] and calls[j][1] != ["cb", "loop_end"]:
                seg.append(calls[j])
                j += 1
            aborted = any(isinstance(x[2], dict) and "raise" in x[2] for x in seg) or (j >= len(calls) and raised is not None) \
                or any(x[1] == ["cb", "tuning_end"] for x in seg)
            for _, cc, aa in seg:
                if cc[:2] == ["sched", "result"] and isinstance(aa, dict) and aa.get("d") == "STOP":
                    sched_stopped.add(cc[2])
            for tid, st in a["status"]:
                want = st == Status.failed or (st == Status.stopped and tid not in sched_stopped)
                got = sum(1 for _, cc, _ in seg if cc == ["sched", "error", tid])
                if want and got == 0 and not aborted:
                    out.append(F("c13:failure-not-notified", f"trial {tid} polled as {st}: no on_trial_error", {"call": idx}))
                if got > 1 or (got == 1 and not want):
                    out.append(F("c13:failure-notified-twice", f"trial {tid} polled as {st}: {got} on_trial_error calls", {"call": idx}))
            i = j
        else:
            i += 1
    # simulator: a run whose end the simulator has processed as failed, and which the loop keeps polling, is reported to the
    # scheduler (the ground truth is the simulator's own complete event, not the status the back-end hands out)
    for idx, tid, st in getattr(t["backend"], "sim_ends", []):
        if st != Status.failed:
            continue
        later = [i for i, c, a in calls if i >= idx and c[:2] == ["be", "fetch"] and tid in c[2]]
        told = any(c == ["sched", "error", tid] for i, c, a in calls if i >= idx - 1)
        if len(later) >= 3 and not told:
            out.append(F("c13:simulator-failure-not-notified", f"the simulator processed the failure of trial {tid}; the loop polled the "
                         f"trial {len(later)} more times and never called on_trial_error", {"call": idx}))
            break
    fin = t["final"]
    if "failed" in fin and raised != "env":
        mf = t["header"]["max_failures"]
        if fin["failed"] > mf:
            if raised is None or not raised.startswith("failed:"):
                out.append(F("c13:abort-without-error", f"{fin['failed']} failures > max_failures={mf} but run() ended with {raised}"))
            else:
                tid = int(raised.split(":")[1])
                # (a trial whose failure was polled together with a result on which the scheduler decided PAUSE / STOP is
                # recorded under that decision afterwards - the end-clash family of c01:end-notified-twice; it did fail)
                ever_failed = {x for _, cc, aa in calls if cc[:2] == ["be", "fetch"] and isinstance(aa, dict)
                               for x, st in aa.get("status", []) if st == Status.failed}
                if dict((a, b) for a, b in fin["last"]).get(tid) != Status.failed and tid not in ever_failed:
                    out.append(F("c13:abort-names-non-failed", f"error names trial {tid} which did not fail"))
        elif raised is not None and raised.startswith("failed:"):
            out.append(F("c13:abort-below-limit", f"run() aborted with {raised} although failures {fin['failed']} <= {mf}"))
    return out


def monitor_c20_loop(t):
    if t.get("skipped"):
        return []
    out = []
    calls = _calls(t)
    deleted = set()
    removable = set()
    in_final = False
    prev = None
    deleted_at = {}
    # PBT: when was the source of a warm start picked? The scheduler pushes (source, config) on a LIFO stack while it
    # answers STOP below max_t, and pops it in the next suggest with a checkpoint
    pbt_stack, picked_at = [], {}
    max_t = getattr(t["scheduler"], "max_t", None) if is_pbt(t) else None
    for i, c, a in calls:
        if max_t is not None and isinstance(a, dict):
            if c[:2] == ["sched", "result"] and a.get("d") == "STOP":
                try:
                    if t["dlg"].results[c[3]][1][RES] < max_t:
                        pbt_stack.append(i)
                except Exception:
                    pass
            if c[:2] == ["sched", "suggest"] and a.get("ckpt") is not None and pbt_stack:
                picked_at[c[2]] = pbt_stack.pop()
        if c == ["be", "all_results"]:
            in_final = True
        if c[:2] == ["sched", "removable"] and isinstance(a, dict) and "ids" in a:
            removable |= set(a["ids"])
        if c[:2] == ["be", "delete"] and not t["header"]["delete_checkpoints"]:
            if not any(f["signature"] == "c20:delete-although-deletion-off" for f in out):
                out.append(F("c20:delete-although-deletion-off", f"checkpoint of trial {c[2]} deleted although the back-end was created with "
                             f"delete_checkpoints=False", {"call": i}))
        if c[:2] == ["be", "delete"]:
            tid = c[2]
            ok = in_final or tid in removable or (prev is not None and prev == ["be", "stop", tid])
            if not ok:
                out.append(F("c20:unexpected-delete", f"checkpoint of trial {tid} deleted without STOP / removable / end of tuning", {"call": i}))
            if a == {"ret": True}:
                deleted.add(tid)
                deleted_at[tid] = i
        if c[:2] == ["be", "resume"] and c[2] in deleted and a != {"ret": True}:
            # (the backend refuses to resume a trial it has stopped: the request itself is the violation)
            out.append(F("c20:resume-without-checkpoint", f"resume_trial({c[2]}) was requested after the checkpoint of the trial had been "
                                                          f"deleted (the backend answered {a})", {"call": i}))
        if c[:2] in (["be", "start"], ["be", "resume"]) and a == {"ret": True}:
            if c[:2] == ["be", "resume"] and c[2] in deleted:
                out.append(F("c20:resume-without-checkpoint", f"trial {c[2]} resumed after its checkpoint was deleted", {"call": i}))
            deleted.discard(c[2])  # a running trial writes a checkpoint again
        if c[:2] == ["be", "copy"] and c[2] in deleted:
            # PBT picks the source while it handles the result of the trial to be replaced; a source stopped by a later
            # result of the same poll is one history (F5), a source whose checkpoint was deleted in an earlier poll
            # (picked although it had been stopped already) is another one
            if not is_pbt(t):
                sig = "c20:copy-from-deleted-checkpoint"
            elif picked_at.get(c[3], -1) < deleted_at.get(c[2], -1):
                sig = "c20:pbt-source-checkpoint-deleted"
            else:
                sig = "c20:pbt-source-stopped-before-picked"
            out.append(F(sig, f"new trial {c[3]} is warm-started from trial {c[2]} whose checkpoint was deleted before (copy_checkpoint "
                              f"answered {a})", {"call": i}))
        prev = c
    return out


def rebindings(t):
    """the rounds of `_schedule_new_tasks` in which the local `running_trials_ids` was rebound (F15): the busy list was
    below the threshold and shorter than the loop's running set.  List of (call index, len(busy list), len(running set))"""
    hdr = t["header"]
    if hdr["swd"]:
        return []
    entries = t["dlg"].entries
    threshold = hdr["n_workers"] if hdr["async"] else 1
    out = []
    for pos, nrun in t["recorder"].sched_running:
        if pos < len(entries) and entries[pos]["call"][:2] == ["be", "busy"] and isinstance(entries[pos]["ans"], dict) \
                and "ids" in entries[pos]["ans"]:
            nb = len(entries[pos]["ans"]["ids"])
            if nb < threshold and nb < nrun:
                out.append((pos, nb, nrun))
    return out


def monitor_counters_backend(t):
    """C12 (last clause) / C01: when run() has returned, normally or by exception — and the `finally` block ran to its end —
    the trials recorded in the tuning status are the trials the backend has started, and the status recorded for a trial is
    compatible with the state the backend holds for it"""
    if t.get("skipped"):
        return []
    fin = t["final"]
    if "last" not in fin:
        return []
    calls = _calls(t)
    seen_end = False
    for i, cc, a in calls:
        if cc == ["cb", "tuning_end"]:
            seen_end = True
        if seen_end and isinstance(a, dict) and "raise" in a:
            return []  # the `finally` block itself was interrupted
    if not seen_end:
        return []
    out = []
    be = t["backend"]
    got = dict((int(x), y) for x, y in fin["last"])
    script = isinstance(be, ScriptBackend)
    # trials whose `start_trial` returned
    started_ok = {int(cc[2]) for i, cc, a in calls if cc[:2] == ["be", "start"] and a == {"ret": True}}
    backend_ids = {int(x) for x in be.trial_ids} & started_ok
    add_raised = {int(cc[2]) for i, cc, a in calls
                  if (cc[:2] == ["sched", "add"] or cc[:2] == ["cb", "start"]) and isinstance(a, dict) and "raise" in a}
    resume_raised = {int(cc[2]) for i, cc, a in calls if cc[:2] == ["cb", "resume"] and isinstance(a, dict) and "raise" in a}
    for tid in sorted(backend_ids - set(got)):
        if tid in add_raised:
            out.append(F("c12:counters-miss-trial-whose-add-raised",
                         f"trial {tid} was started by the backend but is not in the tuning status (num_trials_started={fin['started']}, "
                         f"the backend holds {len(be.trial_ids)} trials): on_trial_add / on_start_trial raised before "
                         f"tuning_status.update recorded it", {"trial": tid}))
        else:
            out.append(F("c12:counters-differ-from-backend", f"trial {tid} was started by the backend but is not in the tuning status",
                         {"trial": tid}))
    for tid in sorted(set(got) - {int(x) for x in be.trial_ids}):
        out.append(F("c12:counters-differ-from-backend", f"trial {tid} is in the tuning status but the backend never started it",
                     {"trial": tid}))
    # per trial: recorded status against the backend's state
    raised = classify_raised(t)
    visible = set()
    for i, cc, a in calls:
        if cc == ["be", "all_results"] and isinstance(a, dict) and "ids" in a:
            visible |= set(a["ids"])
    compatible = {
        Status.completed: {Status.completed},
        Status.failed: {Status.failed},
        Status.paused: {Status.paused},
        Status.stopping: {Status.stopping, Status.stopped},
        # stopped by the scheduler's decision, from outside, by stop_all, or recorded as such by `mark_running_job_as_stopped`
        # while the run had ended by itself after the last poll (or was never polled, F15: reported under its own signature)
        Status.stopped: {Status.stopped, Status.stopping, Status.completed, Status.failed},
    }
    for tid, st in sorted(got.items()):
        if tid not in backend_ids:
            continue
        if script:
            bst = be.truth.get(tid, {}).get("status")
        else:
            if tid not in visible:
                continue  # the simulator's blind spot: a trial that has not reported yet is invisible to stop_all
            bst = getattr(be._trial_dict.get(tid), "status", None)
        if bst is None or st not in compatible:
            continue  # `in_progress` after the mark is reported by the counters check of monitor_c12
        ok = set(compatible[st])
        if raised is not None and st == Status.stopped:
            ok.add(Status.paused)  # the loop was left by an exception between `pause_trial` and `tuning_status.update`
        if st in (Status.failed, Status.completed) and any(cc[:3] == ["be", "stop", tid] for _, cc, _ in calls):
            # the poll that reported the end of the run also delivered a result on which the scheduler decided STOP (the end
            # clash of `C01.notify_end_clash_counterexample`): the generic `stop_trial` overwrites the backend's record
            ok.add(Status.stopped)
        if st == Status.failed and any(cc[:3] == ["be", "pause", tid] for _, cc, _ in calls):
            ok.add(Status.paused)  # the same clash with a PAUSE decision: `pause_trial` overwrites the record of the failed run
        if bst not in ok and st == Status.paused and tid in resume_raised:
            # the sibling of the `on_trial_add` case: `resume_trial` returned, a callback's `on_resume_trial` raised before
            # `tuning_status.update` recorded the trial as in progress again
            out.append(F("c12:counters-miss-trial-whose-add-raised",
                         f"trial {tid} was resumed by the backend (now {bst}) but is still counted as Paused: on_resume_trial raised "
                         f"before tuning_status.update recorded the resume", {"trial": tid}))
        elif bst not in ok:
            out.append(F("c12:counters-differ-from-backend",
                         f"trial {tid} is counted as {st} but the backend holds it as {bst} after run() returned ({raised})", {"trial": tid}))
    return out


def monitor_c12(t):
    """C12 on the recorded dialogue + the backend after run() has returned"""
    if t.get("skipped"):
        return []
    out = []
    calls = _calls(t)
    hdr = t["header"]
    raised = classify_raised(t)
    crit = t["recorder"].crit_trace  # (dialogue position, value) of every `_stop_condition()` of the loop
    # (a) exit: after the first True no further iteration unless `wait` with running trials; no start/resume after it
    first_true = next((pos for pos, v in crit if v), None)
    if first_true is not None:
        later = [(i, c, a) for i, c, a in calls if i >= first_true]
        for i, c, a in later:
            if c[:2] in (["be", "start"], ["be", "resume"]) or c[:2] == ["sched", "suggest"]:
                out.append(F("c12:start-after-criterion", f"{c} issued after the stopping criterion held", {"call": i}))
                break
        if not hdr["wait"]:
            if any(c == ["cb", "loop_start"] for _, c, _ in later):
                out.append(F("c12:continued-after-criterion", "a new iteration began although the criterion held", {"at": first_true}))
        else:
            # with wait: every further iteration must have had running trials at its start
            prev_fetch = None
            for i, c, a in later:
                if c[:2] == ["be", "fetch"] and len(c[2]) == 0:
                    out.append(F("c12:continued-after-criterion", "iteration with no running trial after the criterion held", {"call": i}))
                    break
    # exit without reason: normal return although criterion never held, nothing exhausted
    if raised is None and not any(v for _, v in crit):
        exhausted = any(isinstance(a, dict) and a.get("kind") == "none" for _, c, a in calls if c[:2] == ["sched", "suggest"])
        if not exhausted:
            out.append(F("c12:exit-without-criterion", "run() returned although the criterion never held and the space was not exhausted"))
    # the `finally` block itself was interrupted (its last steps, `mark_running_job_as_stopped` among them, did not run)
    fin_interrupted = False
    seen_end = False
    for i, cc, a in calls:
        if cc == ["cb", "tuning_end"]:
            seen_end = True
        if seen_end and isinstance(a, dict) and "raise" in a:
            fin_interrupted = True
    # (b) overshoot of count budgets (Props/C12.lean `overshoot`, Props/C12b.lean)
    fin = t["final"]
    c = t["spec_criterion"]
    n = hdr["n_workers"]
    snaps = t["recorder"].snapshots
    FINISHED = (Status.completed, Status.stopped, Status.stopping, Status.failed)

    def counts_of(last):
        vals = list(last.values())
        return {"started": len(vals), "completed": sum(1 for v in vals if v == Status.completed),
                "finished": sum(1 for v in vals if v in FINISHED)}

    count_fields = (("max_num_trials_completed", "completed"), ("max_num_trials_finished", "finished"))
    # (b1) up to and including the evaluation of `_stop_condition()` that is the first to return True (`*_first`): the count
    #      is at most m + n_workers; the number of reported results at most m + what the last poll delivered
    # whatever a callback does to `tuner.stop_criterion`, the fields of the user's criterion other than wall-clock time
    # end the run: when they hold, the loop's stopping condition is true
    for pos, v, u in getattr(t["recorder"], "crit_user", []):
        if u and not v:
            out.append(F("c12:criterion-holds-loop-continues",
                         f"the stopping criterion {t['spec']['criterion']} holds on the tuning status (fields other than wall-clock time), "
                         f"the loop's stopping condition is false", {"call": pos}))
            break
    for pos, v, last, nres in t["recorder"].crit_status:
        cnt = counts_of(last)
        for key, fld in count_fields:
            if key in c and cnt[fld] > int(c[key]) + n:
                out.append(F("c12:overshoot:" + key, f"{fld}={cnt[fld]} at the evaluation of the stopping condition at call {pos} "
                             f"(no earlier one was true), with {key}={c[key]} and n_workers={n}", {"at": pos}))
        if "max_num_evaluations" in c:
            m = int(c["max_num_evaluations"])
            polls = [len(a["results"]) for i, cc, a in calls if i < pos and cc[:2] == ["be", "fetch"] and isinstance(a, dict) and "results" in a]
            last_poll = polls[-1] if polls else 0
            if nres > m + last_poll:
                out.append(F("c12:overshoot:max_num_evaluations", f"{nres} results counted at the evaluation of the stopping condition at "
                             f"call {pos} (no earlier one was true), with max_num_evaluations={m}; the last poll delivered {last_poll}", {"at": pos}))
            elif v and nres > m + n:
                # the literal reading of the property ("a count-based budget is overshot by at most n_workers")
                out.append(F("c12:evaluations-overshoot-beyond-n-workers",
                             f"{nres} results counted when the criterion first holds, with max_num_evaluations={m} and n_workers={n}: "
                             f"the last poll delivered {last_poll} results at once", {"at": pos}))
        if v:
            break
    # (b2) when the loop is left (status at `on_tuning_end`, before stop_all turns the still running trials into stopped
    #      ones): started <= m + n_workers; completed / finished <= m + n_workers, with wait_trial_completion_when_stopping
    #      <= m + 2 n_workers (the trials started in the last regular iteration still run to their end)
    if snaps and any(cc == ["cb", "tuning_end"] for _, cc, _ in calls):
        counts = counts_of(snaps[-1])
        if "max_num_trials_started" in c and counts["started"] > int(c["max_num_trials_started"]) + n:
            out.append(F("c12:overshoot", f"started={counts['started']} when the loop was left, with "
                         f"max_num_trials_started={c['max_num_trials_started']} and n_workers={n}"))
        slack = 2 * n if hdr["wait"] else n
        for key, fld in count_fields:
            if key in c and counts[fld] > int(c[key]) + slack:
                out.append(F("c12:overshoot-end:" + key, f"{fld}={counts[fld]} when the loop was left, with {key}={c[key]}, n_workers={n}, "
                             f"wait_trial_completion_when_stopping={hdr['wait']}"))
    # (b3) when run() has returned (after `mark_running_job_as_stopped`): completed as before; finished <= m + 2 n_workers,
    #      unless `running_trials_ids` was rebound in `_schedule_new_tasks` (F15: the trials started afterwards run unseen)
    if "last" in fin and not fin_interrupted:
        got_last = dict((x, y) for x, y in fin["last"])
        counts = counts_of(got_last)
        key = "max_num_trials_completed"
        if key in c and counts["completed"] > int(c[key]) + (2 * n if hdr["wait"] else n):
            out.append(F("c12:overshoot-end:" + key, f"completed={counts['completed']} when run() returned, with {key}={c[key]}, "
                         f"n_workers={n}, wait_trial_completion_when_stopping={hdr['wait']}"))
        key = "max_num_trials_finished"
        if key in c and counts["finished"] > int(c[key]) + 2 * n:
            rebound = rebindings(t)
            if rebound:
                out.append(F("c01:trial-never-polled-after-rebind",
                             f"finished={counts['finished']} when run() returned, with {key}={c[key]} and n_workers={n}: the busy list "
                             f"at call {rebound[0][0]} ({rebound[0][1]} ids) was shorter than the running set ({rebound[0][2]}), the trials "
                             f"started afterwards never entered the loop's running set (start_jobs_without_delay={hdr['swd']})",
                             {"rebound_at": rebound[0][0]}))
            else:
                out.append(F("c12:overshoot-end:" + key, f"finished={counts['finished']} when run() returned, with {key}={c[key]} and "
                             f"n_workers={n}"))
    out += monitor_counters_backend(t)
    # (c) nothing left running (unless the finaliser itself was interrupted)
    be = t["backend"]
    if not fin_interrupted:
        if isinstance(be, ScriptBackend):
            left = [tid for tid, tr in be.truth.items() if tr["status"] == Status.in_progress]
        else:
            # simulator: trials that were visible to stop_all (had reported by then) and are still in progress
            visible = set()
            for i, cc, a in calls:
                if cc == ["be", "all_results"] and isinstance(a, dict) and "ids" in a:
                    visible |= set(a["ids"])
                if cc[:2] == ["cb", "result"]:
                    visible.add(cc[2])      # a trial whose results were delivered has reported: stop_all sees it
            left = [tid for tid in visible if getattr(be._trial_dict.get(tid), "status", None) == Status.in_progress]
        if left:
            out.append(F("c12:left-running", f"trials {left} still in progress in the backend after run() returned ({raised})"))
    # (d) counters = numbers of trials in each state, the state of a trial being what the backend reported
    #     for it last / what the loop decided for it
    if "last" in fin and not fin_interrupted:
        got = dict((x, y) for x, y in fin["last"])
        reported = {}   # trial -> set of statuses ever polled
        decided = {}    # trial -> decisions taken
        started = set()
        for i, cc, a in calls:
            if cc[:2] == ["be", "fetch"] and isinstance(a, dict) and "status" in a:
                for tid, st in a["status"]:
                    reported.setdefault(tid, set()).add(st)
            if cc[:2] == ["cb", "result"]:
                decided.setdefault(cc[2], set()).add(cc[4])
            if cc[:2] == ["cb", "start"] and a == {"ret": True}:
                started.add(cc[2])
        for tid in started:
            if tid not in got:
                out.append(F("c12:counters-mismatch", f"trial {tid} was started but is not counted"))
        for tid, st in got.items():
            ok = True
            if st in (Status.completed, Status.failed, Status.stopping):
                ok = st in reported.get(tid, set())
            elif st == Status.paused:
                ok = "PAUSE" in decided.get(tid, set())
            elif st == Status.stopped:
                ok = True  # decided STOP, reported stopped, or still running when tuning ended (stop_all)
            elif st == Status.in_progress:
                ok = False
            if not ok:
                out.append(F("c12:counters-mismatch", f"trial {tid} is counted as {st} without a poll / decision saying so"))
        cls = lambda pred: sum(1 for v in got.values() if pred(v))
        want = {"started": len(got), "completed": cls(lambda v: v == Status.completed), "failed": cls(lambda v: v == Status.failed),
                "finished": cls(lambda v: v in (Status.completed, Status.stopped, Status.stopping, Status.failed)), "running": 0}
        for k, v in want.items():
            if fin[k] != v:
                out.append(F("c12:counters-mismatch", f"num_trials_{k}={fin[k]} but {v} trials are in that class"))
        # trials whose run ended before the last poll must be recorded with that final status
        if isinstance(be, ScriptBackend) and not fin_interrupted:
            last_fetch = max([i for i, cc, a in calls if cc[:2] == ["be", "fetch"]], default=-1)
            for tid, tr in be.truth.items():
                ended = tr.get("ended_at")
                if ended is not None and ended < last_fetch and tr["status"] in (Status.completed, Status.failed) \
                        and got.get(tid) not in (tr["status"], Status.paused, None) and got.get(tid) == Status.stopped:
                    polled_later = any(cc[:2] == ["be", "fetch"] and tid in cc[2] for i, cc, a in calls if i > ended)
                    if not polled_later:
                        out.append(F("c01:trial-never-polled-after-rebind",
                                     f"trial {tid} {tr['status']} in the backend before the last poll but counted as Stopped: it was never polled "
                                     f"(start_jobs_without_delay={hdr['swd']})", {"trial": tid}))
    # (e) results stored before stop_all
    idx_end = [i for i, cc, a in calls if cc == ["cb", "tuning_end"]]
    idx_all = [i for i, cc, a in calls if cc == ["be", "all_results"]]
    if idx_all and (not idx_end or idx_end[0] > idx_all[0]):
        out.append(F("c12:stop-all-before-results-stored", "stop_all ran before the callbacks' on_tuning_end"))
    return out


# ---------------------------------------------------------------------------------
# C17: rows, statistics, best configuration, CSV round trip


def _load_experiment_fn():
    """`syne_tune.experiments.experiment_result.load_experiment`; the package import is tried first (it works since
    /repo da6d43a), falling back to the module alone without the package __init__ (visualisation imports)"""
    import types
    import syne_tune
    with contextlib.redirect_stdout(io.StringIO()), contextlib.redirect_stderr(io.StringIO()):
        try:
            from syne_tune.experiments import load_experiment
            return load_experiment
        except Exception:  # noqa
            pass
    if "syne_tune.experiments" not in sys.modules or not hasattr(sys.modules["syne_tune.experiments"], "__path__"):
        pkg = types.ModuleType("syne_tune.experiments")
        pkg.__path__ = [os.path.join(os.path.dirname(syne_tune.__file__), "experiments")]
        sys.modules["syne_tune.experiments"] = pkg
    with contextlib.redirect_stdout(io.StringIO()):
        from syne_tune.experiments.experiment_result import load_experiment
    return load_experiment


def _isnum(v):
    return isinstance(v, numbers.Number) and not isinstance(v, complex)


def _isnan(v):
    try:
        return _isnum(v) and math.isnan(float(v))
    except (TypeError, ValueError):
        return False


def _same_cell(v, r):
    """written value v, value r read back from the CSV (17 significant digits)"""
    import pandas as pd
    if v is None or _isnan(v):
        return r is None or _isnan(r) or (isinstance(r, float) and math.isnan(r)) or pd.isna(r)
    if _isnum(v):
        try:
            fr = float(r)
        except (TypeError, ValueError):
            return False
        fv = float(v)
        if math.isinf(fv) or math.isinf(fr):
            return fv == fr
        # pandas' default float parser is not correctly rounded: "up to the last digits of floating-point text"
        # (measured: read_csv returns 0.0016982739998638 for the text 0.0016982739998638863, relative error 5e-14, and
        # 0.000405781000154 for 0.0004057810001540929: digits beyond the 15th decimal place are dropped).  Only the
        # real-time column st_tuner_time has such values; everything else is on a dyadic grid and read back exactly.
        return fv == fr or abs(fv - fr) <= 2e-13 * max(abs(fv), abs(fr)) + 2e-15
    return str(v) == str(r)


def experiment_view(t):
    """load the experiment written by the run from disk; returns dict or None"""
    if t["store"] is None:
        return None
    old = os.environ.get("SYNETUNE_FOLDER")
    os.environ["SYNETUNE_FOLDER"] = t["tmp"]
    try:
        load_experiment = _load_experiment_fn()
        with contextlib.redirect_stdout(io.StringIO()):
            exp = load_experiment("t", download_if_not_found=False)
        out = {"exp": exp, "best": []}
        for i in range(len(t["names"])):
            try:
                with contextlib.redirect_stdout(io.StringIO()):
                    out["best"].append(exp.best_config(metric=i))
            except Exception as ex:  # noqa
                out["best"].append("error:" + type(ex).__name__)
        return out
    finally:
        if old is None:
            os.environ.pop("SYNETUNE_FOLDER", None)
        else:
            os.environ["SYNETUNE_FOLDER"] = old


def best_rows_wire(t, view):
    """index of the table row that `ExperimentResult.best_config(metric=i)` returned (for comparison with the model)"""
    if view is None or view["exp"].results is None:
        return None
    df = view["exp"].results
    out = []
    for b in view["best"]:
        if isinstance(b, str):
            out.append("error")
            continue
        idx = None
        for k in range(len(df)):
            row = {c: v for c, v in dict(df.iloc[k]).items() if not c.startswith("st_")}
            if row.keys() == b.keys() and all(_same_cell(row[c], b[c]) and _same_cell(b[c], row[c]) for c in row):
                idx = k
                break
        out.append(idx)
    return out


def monitor_c17(t, view=None):
    if t.get("skipped"):
        return []
    out = []
    dlg = t["dlg"]
    calls = _calls(t)
    names = t["names"]
    mode = t["scheduler"].metric_mode()
    modes = mode if isinstance(mode, list) else [mode] * len(names)
    # values handed to the loop: every result of every poll (final content of the dicts)
    handed = []
    for i, c, a in calls:
        if c[:2] == ["be", "fetch"] and isinstance(a, dict) and "results" in a:
            for tid, rid, _ in a["results"]:
                handed.append((tid, dlg.results[rid][1]))
    # --- rows: one per delivered result, in order, with the annotations
    rows = t["rows"]
    if rows is not None:
        delivered = [c for i, c, a in calls if c[:2] == ["cb", "result"] and a == {"ret": True}]
        if len(rows) != len(delivered):
            out.append(F("c17:row-count", f"{len(rows)} rows for {len(delivered)} delivered results"))
        cfg_at = {}
        k = 0
        for i, c, a in calls:
            if c[:2] == ["be", "start"] and a == {"ret": True}:
                cfg_at[c[2]] = dlg.cfgs[c[3]]
            if c[:2] == ["be", "resume"] and a == {"ret": True} and c[3] is not None:
                cfg_at[c[2]] = dlg.cfgs[c[3]]
            if c[:2] == ["cb", "result"] and a == {"ret": True} and k < len(rows):
                row = rows[k]
                k += 1
                tid, rid, dec, st = c[2], c[3], c[4], c[5]
                res = dlg.results[rid][1]
                want = dict(res)
                want[ST_DECISION], want[ST_STATUS], want[ST_TRIAL_ID] = dec, st, tid
                for ck, cv in cfg_at.get(tid, {}).items():
                    want["config_" + ck] = cv
                got = dict(row)
                if ST_TUNER_TIME not in got:
                    out.append(F("c17:row-without-time-stamp", f"row {k - 1} has no {ST_TUNER_TIME}"))
                if ST_TUNER_TIME not in want:
                    got.pop(ST_TUNER_TIME, None)
                if got.keys() != want.keys() or any(not (_same_cell(want[x], got[x]) and type(want[x]) == type(got[x])) for x in want):
                    diff = {x: (want.get(x), got.get(x)) for x in set(want) | set(got) if not (x in want and x in got and _same_cell(want[x], got[x]))}
                    out.append(F("c17:row-content", f"row {k - 1} (trial {tid}) differs from the delivered result: {diff}"))
    # --- statistics
    ts = t["tuner"].tuning_status
    if ts is not None:
        def expect(vals):
            nums = [float(v) for v in vals if not _isnan(v)]
            return (min(nums + [math.inf]), max(nums + [-math.inf]), len(vals))

        def check(where, ms, results):
            if ms.count != len(results):
                out.append(F("c17:stats-count", f"{where}: count {ms.count} for {len(results)} results handed to the loop"))
            keys = {}
            for r in results:
                for kk, v in r.items():
                    keys.setdefault(kk, []).append(v)
            for kk, vals in keys.items():
                if not all(_isnum(v) for v in vals):
                    continue  # mixed numeric / non-numeric: "types of first added metrics define its type" (model only)
                mn, mx, _ = expect(vals)
                if kk not in ms.min_metrics or float(ms.min_metrics[kk]) != mn or _isnan(ms.min_metrics[kk]):
                    out.append(F("c17:stats-min", f"{where}: min of {kk} is {ms.min_metrics.get(kk)} but the values handed to the loop have min {mn}"))
                if kk not in ms.max_metrics or float(ms.max_metrics[kk]) != mx or _isnan(ms.max_metrics[kk]):
                    out.append(F("c17:stats-max", f"{where}: max of {kk} is {ms.max_metrics.get(kk)} but the values handed to the loop have max {mx}"))
                tot = 0
                for v in vals:
                    tot = tot + v
                got = ms.sum_metrics.get(kk)
                if got is None or not ((_isnan(tot) and _isnan(got)) or float(tot) == float(got)):
                    out.append(F("c17:stats-sum", f"{where}: sum of {kk} is {got}, expected {tot}"))

        applied = handed
        # results of an iteration that was aborted before `tuning_status.update` are not in the statistics
        n_applied = ts.overall_metric_statistics.count
        if n_applied <= len(handed):
            applied = handed[:n_applied]
        check("overall", ts.overall_metric_statistics, [r for _, r in applied])
        per = {}
        for tid, r in applied:
            per.setdefault(tid, []).append(r)
        for tid, rs in per.items():
            check(f"trial {tid}", ts.trial_metric_statistics[tid], rs)
        # --- best trial reported by the tuner
        for i, name in enumerate(names):
            vals = [(tid, float(r[name])) for tid, r in applied if name in r and _isnum(r[name]) and not _isnan(r[name])]
            allnum = all(_isnum(r[name]) for _, r in applied if name in r)
            if not vals or not allnum:
                continue
            with contextlib.redirect_stdout(io.StringIO()):
                try:
                    best_tid, best_cfg = t["tuner"].best_config(metric=i)
                except Exception as ex:  # noqa
                    out.append(F("c17:best-config-raises", f"Tuner.best_config(metric={i}) raised {type(ex).__name__}"))
                    continue
            # the configuration reported with the best trial is that trial's configuration (also when the script reports a
            # value under the name of a hyperparameter)
            td = t["tuner"].trial_backend._trial_dict.get(best_tid)
            if td is not None and {k_: v_ for k_, v_ in dict(best_cfg).items() if k_ in td.config} != dict(td.config) and \
                    not any(f["signature"] == "c17:best-config-not-the-trials" for f in out):
                out.append(F("c17:best-config-not-the-trials", f"Tuner.best_config(metric={i}) names trial {best_tid} with configuration "
                             f"{dict(best_cfg)!r}, the trial runs with {dict(td.config)!r}"))
            if False:
                pass
            opt = min(v for _, v in vals) if modes[i] == "min" else max(v for _, v in vals)
            mine = [v for tid, v in vals if tid == best_tid]
            if not mine or (min(mine) if modes[i] == "min" else max(mine)) != opt:
                out.append(F("c17:best-tuner", f"Tuner.best_config(metric={i}) names trial {best_tid} but the optimum ({modes[i]}) {opt} of {name} is attained elsewhere"))
    # --- table read back from disk
    if view is not None and rows is not None:
        df = view["exp"].results
        if df is None:
            # (an exception raised by the first callback's `on_tuning_end` keeps the store callback from writing)
            end_raised = any(e["call"] == ["cb", "tuning_end"] and "raise" in (e["ans"] or {}) for e in t["dlg"].entries)
            if rows and not end_raised:
                out.append(F("c17:csv-missing", "results table could not be loaded although rows were stored"))
        else:
            if len(df) != len(rows):
                out.append(F("c17:csv-rows", f"{len(df)} rows on disk for {len(rows)} rows in memory"))
            else:
                cols = []
                for r in rows:
                    for kk in r:
                        if kk not in cols:
                            cols.append(kk)
                if list(df.columns) != cols:
                    out.append(F("c17:csv-columns", f"columns on disk {list(df.columns)} in memory {cols}"))
                else:
                    for k, r in enumerate(rows):
                        for kk in cols:
                            if not _same_cell(r.get(kk), df.iloc[k][kk]):
                                out.append(F("c17:csv-cell", f"row {k} column {kk}: stored {r.get(kk)!r} read back {df.iloc[k][kk]!r}"))
                                break
            # best configuration of the loaded experiment attains the optimum over the rows
            for i, name in enumerate(names):
                b = view["best"][i]
                col = [r.get(name) for r in rows]
                if not all(v is None or _isnum(v) for v in col):
                    continue
                nums = [float(v) for v in col if v is not None and not _isnan(v)]
                if not nums:
                    continue
                if isinstance(b, str):
                    out.append(F("c17:best-experiment", f"ExperimentResult.best_config(metric={i}) raised {b} although the column has numbers"))
                    continue
                opt = min(nums) if modes[i] == "min" else max(nums)
                if b.get(name) is None or _isnan(b.get(name)) or float(b[name]) != opt:
                    out.append(F("c17:best-experiment", f"ExperimentResult.best_config(metric={i}) has {name}={b.get(name)} but the optimum ({modes[i]}) over the rows is {opt}"))
    return out


def mode_lookup_lines(rng, dlg_keys=None, n=6):
    """reference-style lines for `syne_tune.util.metric_name_mode` (C17 `mode_lookup`)"""
    from syne_tune.util import metric_name_mode
    out = []
    for _ in range(n):
        k = rng.randint(1, 4)
        names = ["m%d" % rng.randint(0, 4) for _ in range(k)] if rng.random() < 0.3 else ["m%d" % i for i in range(k)]
        is_list = rng.random() < 0.6
        modes = [rng.choice(["min", "max"]) for _ in range(k if rng.random() < 0.85 else max(1, k - 1))] if is_list else rng.choice(["min", "max"])
        keyof = lambda nm: int(nm[1:])
        inp = {"op": "mode_lookup", "names": [keyof(x) for x in names], "modes": modes if is_list else [modes], "mode_is_list": is_list}
        if rng.random() < 0.5:
            sel = rng.choice(names + ["m9"])
            inp["name"] = keyof(sel)
        else:
            sel = rng.randint(-k - 1, k + 1)
            inp["index"] = sel
        try:
            with contextlib.redirect_stdout(io.StringIO()):
                nm, md = metric_name_mode(list(names), list(modes) if is_list else modes, sel)
            impl = {"name": keyof(nm), "mode": md}
        except AssertionError:
            impl = {"err": "assertion"}
        except IndexError:
            impl = {"err": "index-error"}
        out.append((inp, impl))
    return out
