"""
Stream `hb`: the real `HyperbandScheduler` (stopping / promotion) of /repo driven with a
scripted worker pool, a recording stub searcher and a recording proxy of the bracket
manager's `random_state`.  Produces the line protocol of DESIGN Appendix A with the
implementation's observed outputs, plus the raw event log used by the monitors.
"""
import logging
import random
from fractions import Fraction

import numpy as np

logging.disable(logging.CRITICAL)

from syne_tune.backend.trial_status import Trial
from syne_tune.config_space import uniform
from syne_tune.optimizer.scheduler import SchedulerDecision
from syne_tune.optimizer.schedulers.hyperband import HyperbandScheduler
from syne_tune.optimizer.schedulers.searchers.searcher import BaseSearcher
import datetime

from framework import frac_str

METRIC, RES, MAXATTR, COST = "loss", "epoch", "epochs", "cost"
EPOCH0 = datetime.datetime(2020, 1, 1)


class StubSearcher(BaseSearcher):
    def __init__(self, config_space, metric, mode):
        super().__init__(config_space, metric, points_to_evaluate=[], mode=mode)
        self.calls = []
        self.k = 0

    def get_config(self, **kwargs):
        self.k += 1
        c = {"x": self.k / 1024.0}
        for k, v in self.config_space.items():
            if not hasattr(v, "sample"):
                c[k] = v
        return c

    def on_trial_result(self, trial_id, config, result, update):
        self.calls.append(["update", int(trial_id), int(result[RES]), frac_str(result[METRIC]), bool(update)])

    def register_pending(self, trial_id, config=None, milestone=None):
        self.calls.append(["pending", int(trial_id), int(milestone)])

    def remove_case(self, trial_id, **kwargs):
        self.calls.append(["remove_case", int(trial_id), int(kwargs[RES]), frac_str(kwargs[METRIC])])

    def evaluation_failed(self, trial_id):
        self.calls.append(["failed", int(trial_id)])

    def cleanup_pending(self, trial_id):
        self.calls.append(["cleanup", int(trial_id)])

    def take(self):
        c, self.calls = self.calls, []
        return c

    @property
    def debug_log(self):
        return None


class RecordingRandomState:
    """delegates to the real generator, records what `choice` returned"""

    def __init__(self, inner):
        self._inner = inner
        self.drawn = []

    def choice(self, *a, **kw):
        r = self._inner.choice(*a, **kw)
        self.drawn.append(int(r))
        return r

    def __getattr__(self, name):
        return getattr(self._inner, name)


def make_scheduler(kw):
    """kw: constructor line of the protocol"""
    cs = {"x": uniform(0, 1)}
    args = dict(
        searcher=None, metric=METRIC, mode=kw["mode"], resource_attr=RES, type=kw["type"],
        brackets=kw.get("brackets", 1), rung_system_per_bracket=kw.get("rung_system_per_bracket", False),
        searcher_data=kw.get("searcher_data", "rungs"),
        register_pending_myopic=kw.get("register_pending_myopic", False),
        random_seed=kw.get("random_seed", 0),
    )
    if kw.get("max_resource_attr"):
        cs[MAXATTR] = kw["max_t"]
        args["max_resource_attr"] = MAXATTR
    else:
        args["max_t"] = kw["max_t"]
    if "rung_levels" in kw:
        args["rung_levels"] = list(kw["rung_levels"])
    else:
        args["grace_period"] = kw["grace_period"]
        if "reduction_factor" in kw:
            args["reduction_factor"] = float(Fraction(kw["reduction_factor"]))
        else:
            args["rung_increment"] = kw["rung_increment"]
    if kw["type"] == "cost_promotion" or kw.get("cost"):
        args["cost_attr"] = COST
    if "num_threshold_candidates" in kw:
        args["rung_system_kwargs"] = {"num_threshold_candidates": kw["num_threshold_candidates"]}
    if kw.get("searcher"):
        # real model-based searcher; no model is ever fitted (num_init_random is huge): bookkeeping only
        args["searcher"] = kw["searcher"]
        args["search_options"] = {"num_init_random": 10 ** 6, "debug_log": False}
    else:
        args["searcher"] = StubSearcher(cs, METRIC, kw["mode"])
    sch = HyperbandScheduler(cs, **args)
    sch._initialize_searcher()
    rs = RecordingRandomState(sch.terminator.random_state)
    sch.terminator.random_state = rs
    return sch, rs


def snapshot(sch):
    t = sch.terminator
    rungs = [
        [[r.level, frac_str(Fraction(r.prom_quant).limit_denominator(10 ** 6)) if False else None,
          [[int(e.trial_id), frac_str(e.metric_val), bool(getattr(e, "was_promoted", False))] for e in r.data]]
         for r in rs._rungs]
        for rs in t._rung_systems
    ]
    # prom_quant is a float in the code; compared separately (init line) with tolerance
    rungs = [[[lv, data] for lv, _, data in sysr] for sysr in rungs]
    running = [
        [[int(k), int(v["milestone"]), None if v["resume_from"] is None else int(v["resume_from"])]
         for k, v in getattr(rs, "_running", {}).items()]
        for rs in t._rung_systems
    ]
    thresholds = [
        [[int(k), frac_str(v)] for k, v in rs._decider._thresholds.items()] if hasattr(rs, "_decider") else []
        for rs in t._rung_systems
    ]
    pasha = [
        [int(rs.current_rung_idx), int(rs.current_max_t)] if hasattr(rs, "current_rung_idx") else [0, 0]
        for rs in t._rung_systems
    ]
    cost_offset = [[int(k), frac_str(v)] for k, v in sch._cost_offset.items()]
    task_info = [[int(k), int(v)] for k, v in t._task_info.items()]
    active = [[int(k), v.trial_decision, int(v.bracket)] for k, v in sch._active_trials.items()]
    out = {"rungs": rungs, "running": running, "task_info": task_info, "active": active,
           "thresholds": thresholds, "pasha": pasha, "cost_offset": cost_offset}
    if any(hasattr(e, "cost_val") for rs in t._rung_systems for r in rs._rungs for e in r.data):
        # cost-aware promotion: the cost recorded with each rung entry is the trial's total cost up to that level
        out["rung_costs"] = [[[[int(e.trial_id), frac_str(e.cost_val)] for e in r.data] for r in rs._rungs] for rs in t._rung_systems]
    if hasattr(sch.searcher, "state_transformer"):
        st = sch.searcher.state_transformer.state
        out["pending"] = [[int(p.trial_id), int(p.resource)] for p in st.pending_evaluations]
        out["observed"] = [[int(e.trial_id), [[int(k), frac_str(v)] for k, v in e.metrics.get("target", {}).items()]]
                           for e in st.trials_evaluations]
        out["failed"] = [int(x) for x in st.failed_trials]
    return out


def model_view(out):
    """project a model output to the shape `snapshot` produces (drop q from rungs)"""
    o = dict(out)
    if "rungs" in o:
        o["rungs"] = [[[r[0], r[2]] for r in sysr] for sysr in o["rungs"]]
    return o


def errname(e):
    if isinstance(e, AssertionError):
        return "assertion"
    if isinstance(e, KeyError):
        return "key-error"
    if isinstance(e, IndexError):
        return "index-error"
    return "other:" + type(e).__name__


class Worker:
    """scripted training job of one trial"""

    def __init__(self, tid, next_r, upto):
        self.tid, self.next_r, self.upto, self.start_r = tid, next_r, upto, next_r


def metric_value(rng_seed, tid, r, style):
    rr = random.Random(rng_seed * 7919 + tid * 104729 + r)
    if style == "ties":
        return rr.randrange(0, 4) / 4.0
    if style == "const":
        return 0.5
    if style == "grid":
        # multiples of 1/1024 in [0, 1): `1 - v` is exact in floating point
        lat = random.Random(rng_seed * 31 + tid).randrange(0, 48)
        return (lat * 16 + rr.randrange(0, 256)) / 1024.0
    if style == "noisy":
        # rankings change from level to level (drives PASHA's cap growth)
        return rr.randrange(0, 256) / 256.0
    if style.startswith("near"):
        # near-ties: differences far above round-off (2^-40 relative) but small
        delta = {"near4": 1e-4, "near6": 1e-6, "near8": 1e-8, "near10": 1e-10}[style]
        return 0.75 + rr.randrange(-8, 9) * delta
    if style == "tiny":
        return metric_value(rng_seed, tid, r, "general") * 2.0 ** -30
    if style == "huge":
        return metric_value(rng_seed, tid, r, "general") * 2.0 ** 40
    if style == "neg":
        return metric_value(rng_seed, tid, r, "general") - 0.5
    lat = random.Random(rng_seed * 31 + tid).randrange(0, 64)
    return (lat + rr.randrange(-16, 17) * (1.0 / (1 + r))) / 64.0 + (tid % 7) / 8192.0


def run_scenario(spec):
    """spec: {"ctor": {...}, "seed": int, "n_workers": int, "max_events": int, "style": str,
              "checkpointing": bool, "p_fail": float, "p_late": float, "negate": bool}
    returns dict(lines=[(input, impl_out)], events=[...], sched=<scheduler>)"""
    ctor = dict(spec["ctor"])
    rng = random.Random(spec["seed"])
    sch, rs = make_scheduler(ctor)
    lines = []
    header = dict(ctor)
    header["stream"] = "hb"
    lines.append((header, {"rung_levels": [int(x) for x in sch.rung_levels], "num_brackets": int(sch.terminator.num_brackets),
                           "_prom_quants": [float(q) for (_, _, q) in sch.terminator.information_for_rungs()]}))
    events = []
    workers = {}
    trials = {}
    dead = set()
    next_id = 0
    max_t = ctor["max_t"]
    style = spec.get("style", "general")
    sign = -1.0 if spec.get("negate") else 1.0
    searcher = sch.searcher
    real_searcher = ctor.get("searcher")
    if real_searcher is not None:
        class _NoCalls:
            def take(self):
                return None
        searcher = _NoCalls()
    n_events = 0
    # training scripts reporting only every `stride`-th level (stopping types only: a pause/resume
    # trial must report its milestone exactly, the code asserts it)
    stride = spec.get("stride", 1) if not sch.does_pause_resume() else 1
    late = []  # trials that got a non-continue decision and may send one more report

    def do_result(tid, r):
        v = sign * metric_value(spec["seed"], tid, r, style)
        res = {METRIC: v, RES: r}
        inp = {"op": "result", "trial": tid, "resource": r, "metric": frac_str(v)}
        if ctor.get("cost") or ctor["type"] == "cost_promotion":
            w = workers.get(tid)
            steps = (r - w.start_r + 1) if w is not None else 1
            c = max(steps, 1) * (1 + (tid * 7 + spec["seed"]) % 5) / 8.0
            res[COST] = c
            inp["cost"] = frac_str(c)
        before = snapshot(sch)
        prev_dec = sch._active_trials[str(tid)].trial_decision if str(tid) in sch._active_trials else None
        def pasha_eps():
            # value of `epsilon` after `_update_epsilon()` (an input of the model, DESIGN C04-R)
            if ctor["type"] == "pasha" and str(tid) in sch._active_trials:
                b = int(sch._active_trials[str(tid)].bracket)
                rsys = sch.terminator._rung_systems[b if ctor.get("rung_system_per_bracket") else 0]
                inp["eps"] = frac_str(float(rsys.epsilon))
        try:
            d = sch.on_trial_result(trials[tid], dict(res))
        except Exception as e:  # noqa
            pasha_eps()
            lines.append((inp, {"err": errname(e)}))
            events.append({"ev": "result-error", "trial": tid, "resource": r, "err": errname(e)})
            return None
        inp["hint"] = d == SchedulerDecision.CONTINUE
        pasha_eps()
        out = {"decision": d}
        if real_searcher is None:
            out["calls"] = searcher.take()
        out.update(snapshot(sch))
        lines.append((inp, out))
        events.append({"ev": "result", "trial": tid, "resource": r, "metric": v, "decision": d,
                       "rungs_after": out["rungs"], "rungs_before": before["rungs"], "prev_decision": prev_dec,
                       "pasha_after": out["pasha"], "pasha_before": before["pasha"], "bracket": int(sch._active_trials[str(tid)].bracket),
                       "cost": res.get(COST), "rung_costs_after": out.get("rung_costs")})
        return d

    while n_events < spec["max_events"]:
        n_events += 1
        can_suggest = len(workers) < spec["n_workers"] and next_id < spec.get("max_trials", 10 ** 9)
        acts = []
        if can_suggest:
            acts += ["suggest"] * 2
        if workers:
            acts += ["report"] * 5
            if spec.get("p_fail", 0) > 0 and rng.random() < spec["p_fail"]:
                acts = ["fail"]
        if late and rng.random() < spec.get("p_late", 0):
            acts = ["late"]
        if not acts:
            break
        a = rng.choice(acts)
        if a == "suggest":
            n0 = len(rs.drawn)
            before = snapshot(sch)
            try:
                sg = sch.suggest(next_id)
            except Exception as e:  # noqa
                br = rs.drawn[-1] if len(rs.drawn) > n0 else 0
                lines.append(({"op": "suggest", "trial_id": next_id, "bracket": br}, {"err": errname(e)}))
                events.append({"ev": "suggest-error", "err": errname(e)})
                break
            br = rs.drawn[-1] if len(rs.drawn) > n0 else 0
            inp = {"op": "suggest", "trial_id": next_id, "bracket": br}
            calls = searcher.take()
            if sg.spawn_new_trial_id:
                tid = next_id
                next_id += 1
                cfg = sg.config
                trials[tid] = Trial(trial_id=tid, config=cfg, creation_time=EPOCH0)
                ms = None
                upto = max_t
                if ctor.get("max_resource_attr") and sch.does_pause_resume():
                    ms = int(cfg[MAXATTR])
                    upto = ms
                first = int(sch.terminator._rung_systems[0].get_first_milestone(0)) if False else None
                workers[tid] = Worker(tid, stride, upto)
                sch.on_trial_add(trials[tid])
                bracket = int(sch._active_trials[str(tid)].bracket)
                out = {"suggestion": {"kind": "start", "trial": tid, "bracket": bracket}, "calls": calls}
                if ms is not None:
                    out["suggestion"]["milestone"] = ms
                out.update(snapshot(sch))
                lines.append((inp, out))
                events.append({"ev": "start", "trial": tid, "bracket": bracket, "milestone": ms, "before": before,
                               "drawn_bracket": br})
            else:
                tid = int(sg.checkpoint_trial_id)
                info = None
                for rsys in sch.terminator._rung_systems:
                    if str(tid) in getattr(rsys, "_running", {}):
                        info = rsys._running[str(tid)]
                frm, ms = int(info["resume_from"]), int(info["milestone"])
                inp["hint"] = frm
                out = {"suggestion": {"kind": "resume", "trial": tid, "from": frm, "milestone": ms}, "calls": calls}
                out.update(snapshot(sch))
                lines.append((inp, out))
                if sg.config is not None:
                    trials[tid] = Trial(trial_id=tid, config=sg.config, creation_time=EPOCH0)
                    cfg_ms = int(sg.config[MAXATTR]) if ctor.get("max_resource_attr") else None
                else:
                    cfg_ms = None
                events.append({"ev": "resume", "trial": tid, "from": frm, "milestone": ms, "cfg_milestone": cfg_ms,
                               "before": before, "drawn_bracket": br, "after": out,
                               "was_dead": tid in dead, "running": tid in workers})
                upto = cfg_ms if cfg_ms is not None else max_t
                start_r = frm + 1 if spec.get("checkpointing", True) else 1
                workers[tid] = Worker(tid, start_r, upto)
        elif a == "report":
            tid = rng.choice(sorted(workers))
            w = workers[tid]
            r = w.next_r
            d = do_result(tid, r)
            if d is None:
                break
            w.next_r += stride
            if d != SchedulerDecision.CONTINUE:
                del workers[tid]
                sch.on_trial_remove(trials[tid])
                lines.append(({"op": "remove", "trial": tid}, snapshot(sch)))
                events.append({"ev": "remove", "trial": tid, "decision": d})
                late.append((tid, r + 1))
            elif r >= w.upto or (spec.get("p_early") and rng.random() < spec["p_early"]):
                # training script ends by itself (at its last level, or - `p_early` - earlier, also before its first milestone)
                v = sign * metric_value(spec["seed"], tid, r, style)
                sch.on_trial_complete(trials[tid], {METRIC: v, RES: r})
                out = {"calls": searcher.take()}
                out.update(snapshot(sch))
                lines.append(({"op": "complete", "trial": tid, "resource": r, "metric": frac_str(v)}, out))
                events.append({"ev": "complete", "trial": tid, "resource": r})
                del workers[tid]
        elif a == "fail":
            tid = rng.choice(sorted(workers))
            del workers[tid]
            dead.add(tid)
            try:
                sch.on_trial_error(trials[tid])
            except Exception as e:  # noqa
                lines.append(({"op": "error", "trial": tid}, {"err": errname(e)}))
                events.append({"ev": "error-raised", "trial": tid, "err": errname(e)})
                break
            out = {"calls": searcher.take()}
            out.update(snapshot(sch))
            lines.append(({"op": "error", "trial": tid}, out))
            events.append({"ev": "error", "trial": tid})
        elif a == "late":
            tid, r = late.pop(rng.randrange(len(late)))
            if tid in workers or r > max_t:
                continue
            d = do_result(tid, r)
            if d is None:
                break
            events[-1]["late"] = True
    return {"lines": lines, "events": events, "sched": sch}


def compare(inp, impl, model):
    from framework import default_compare

    if impl is None:
        return None
    if "stream" in inp:
        mo = model.get("out")
        if mo is None:
            return f"model init error {model}"
        if mo["rung_levels"] != impl["rung_levels"]:
            return f"rung levels impl {impl['rung_levels']} model {mo['rung_levels']}"
        if mo["num_brackets"] != impl["num_brackets"]:
            return f"num_brackets impl {impl['num_brackets']} model {mo['num_brackets']}"
        mq = [float(Fraction(x[2])) for x in mo["info"]]
        iq = impl["_prom_quants"]
        if len(mq) != len(iq) or any(abs(a - b) > 1e-12 for a, b in zip(mq, iq)):
            return f"promotion quantiles impl {iq} model {mq}"
        return None
    if "out" in model and isinstance(model["out"], dict):
        model = {"out": model_view(model["out"])}
        sg = impl.get("suggestion")
        if sg and sg.get("kind") == "start" and "milestone" not in sg:
            ms = model["out"].get("suggestion", {})
            ms = dict(ms)
            ms.pop("milestone", None)
            model["out"]["suggestion"] = ms
    return default_compare(inp, impl, model)
