"""
Stream `sync`: the real synchronous Hyperband code of /repo
(`SynchronousHyperbandScheduler`, `SynchronousGeometricHyperbandScheduler`,
`SynchronousHyperbandBracketManager`, `DifferentialEvolutionHyperbandBracketManager`)
driven in-process with scripted workers and a recording stub searcher.  Produces the line
protocol understood by `lean/SyneTune/Drivers/Sync.lean` together with the implementation's
observed outputs, plus the raw event log used by the monitors

    monitor_c05(trace)        C05  rungs filled exactly / barrier / top list / never blocks
    monitor_c13_sync(trace)   C13  failures contained (synchronous Hyperband part)
    monitor_c20_sync(trace)   C20  a trial reported as removable is never resumed

Metrics are exact: a Python float is sent as `Fraction(x)`, NaN as "nan".
"""
import datetime
import logging
import math
import random
from fractions import Fraction

import numpy as np

logging.disable(logging.CRITICAL)

from syne_tune.backend.trial_status import Trial
from syne_tune.config_space import uniform
from syne_tune.optimizer.scheduler import SchedulerDecision
from syne_tune.optimizer.schedulers.searchers.searcher import BaseSearcher
from syne_tune.optimizer.schedulers.synchronous.dehb_bracket_manager import (
    DifferentialEvolutionHyperbandBracketManager,
)
from syne_tune.optimizer.schedulers.synchronous.hyperband import SynchronousHyperbandScheduler
from syne_tune.optimizer.schedulers.synchronous.hyperband_bracket import SlotInRung
from syne_tune.optimizer.schedulers.synchronous.hyperband_bracket_manager import (
    SynchronousHyperbandBracketManager,
)
from syne_tune.optimizer.schedulers.synchronous.hyperband_impl import (
    SynchronousGeometricHyperbandScheduler,
)
from syne_tune.optimizer.schedulers.synchronous.hyperband_rung_system import (
    SynchronousHyperbandRungSystem,
)

from framework import frac_str

METRIC, RES, MAXATTR = "loss", "epoch", "epochs"
EPOCH0 = datetime.datetime(2020, 1, 1)


# ---------------------------------------------------------------------------------
# helpers


_MSTR = {}


def mstr(v):
    """metric value -> wire form (None | "nan" | "n/d")"""
    if v is None:
        return None
    v = float(v)
    if math.isnan(v):
        return "nan"
    if math.isinf(v):
        return "inf" if v > 0 else "-inf"   # (monitor-only cases: the model's metrics are rationals or NaN)
    r = _MSTR.get(v)
    if r is None:
        if len(_MSTR) > 200000:
            _MSTR.clear()
        r = _MSTR[v] = frac_str(v)
    return r


def errname(e):
    if isinstance(e, AssertionError):
        return "assertion"
    if isinstance(e, KeyError):
        return "key-error"
    return "other:" + type(e).__name__


def tid_json(t):
    return None if t is None else int(t)


def snapshot_bracket(br):
    rungs = []
    for entry, level in br._rungs:
        if isinstance(entry, list):
            rungs.append([int(level), [[tid_json(t), mstr(m)] for (t, m) in entry]])
        else:
            rungs.append([int(level), int(entry)])
    return {"current": int(br.current_rung), "first_free": int(br._first_free_pos), "rungs": rungs}


def snapshot_manager(mgr, cache=None):
    """`cache`: per-run dict index -> snapshot of a bracket below the primary one (such a
    bracket is complete; its final snapshot is taken once, after it completed)"""
    brs = []
    prim = int(mgr._primary_bracket_id)
    for i, b in enumerate(mgr._brackets):
        if cache is not None and i < prim:
            if i not in cache:
                cache[i] = snapshot_bracket(b)
            brs.append(cache[i])
        else:
            brs.append(snapshot_bracket(b))
    return {
        "primary": prim,
        "offsets": [int(x) for x in mgr._bracket_id_to_offset],
        "brackets": brs,
    }


def wire(state, first=0):
    """what goes over the wire: brackets below `first` (the primary bracket before the
    operation) are complete, never change any more and are not repeated"""
    out = dict(state)
    n = len(state["brackets"])
    out["num_brackets"] = n
    out["first_shown"] = min(first, n)
    out["brackets"] = state["brackets"][first:]
    return out


def snapshot_scheduler(sch, cache=None):
    out = snapshot_manager(sch.bracket_manager, cache)
    out["pending"] = [
        [int(t), int(b), int(sl.rung_index), int(sl.level), int(sl.slot_index), tid_json(sl.trial_id)]
        for t, (b, sl) in sch._trial_to_pending_slot.items()
    ]
    out["removable"] = [tid_json(t) for t in sch._trials_checkpoints_can_be_removed]
    out["configs"] = sorted(int(t) for t in sch._trial_to_config)
    return out


class StubSearcher(BaseSearcher):
    """records the calls of the scheduler; `get_config` answers `None` when told to"""

    def __init__(self, config_space, metric, mode):
        super().__init__(config_space, metric, points_to_evaluate=[], mode=mode)
        self.calls = []
        self.k = 0
        self.next_has_config = True
        self.asked = False

    def configure_scheduler(self, scheduler):
        pass

    def get_config(self, **kwargs):
        self.asked = True
        if not self.next_has_config:
            return None
        self.k += 1
        return {"x": (self.k % 1024) / 1024.0}

    def on_trial_result(self, trial_id, config, result, update):
        self.calls.append(["update", int(trial_id), int(result[RES]), mstr(result[METRIC]), bool(update)])

    def register_pending(self, trial_id, config=None, milestone=None):
        self.calls.append(["pending", int(trial_id), int(milestone)])

    def evaluation_failed(self, trial_id):
        self.calls.append(["failed", int(trial_id)])

    def take(self):
        c, self.calls = self.calls, []
        return c

    @property
    def debug_log(self):
        return None


def make_scheduler(ctor):
    cs = {"x": uniform(0, 1)}
    kw = dict(metric=METRIC, mode=ctor["mode"], resource_attr=RES, searcher="random",
              searcher_data=ctor.get("searcher_data", "rungs"), random_seed=0)
    if "geometric" in ctor:
        g = ctor["geometric"]
        max_level = g["max"]
    else:
        max_level = max(lv for _, lv in ctor["bracket_rungs"][0]) if ctor["bracket_rungs"] and ctor["bracket_rungs"][0] else 1
    if ctor.get("max_resource_attr"):
        cs[MAXATTR] = max_level
        kw["max_resource_attr"] = MAXATTR
    else:
        kw["max_resource_level"] = max_level
    if "geometric" in ctor:
        kw["grace_period"] = g["min"]
        kw["reduction_factor"] = float(Fraction(g["rf"]))
        if g.get("brackets") is not None:
            kw["brackets"] = g["brackets"]
        sch = SynchronousGeometricHyperbandScheduler(cs, **kw)
    else:
        rungs = [[(int(s), int(l)) for s, l in sys_] for sys_ in ctor["bracket_rungs"]]
        sch = SynchronousHyperbandScheduler(cs, bracket_rungs=rungs, **kw)
        _scramble(rungs)  # the caller goes on using (and changing) its own list: the scheduler must not see that
    stub = StubSearcher(cs, METRIC, ctor["mode"])
    sch._searcher = stub
    sch._initialize_searcher()
    return sch, stub


def metric_value(seed, tid, level, style):
    rr = random.Random(seed * 7919 + tid * 104729 + level)
    if style == "ties":
        return rr.randrange(0, 3) / 4.0
    if style == "const":
        return 0.5
    if style == "id":  # decreasing quality with the id: deterministic, distinct
        return (tid * 37 % 101) / 128.0 + level / 4096.0
    lat = random.Random(seed * 31 + tid).randrange(0, 64)
    return (lat + rr.randrange(-16, 17) * (1.0 / (1 + level))) / 64.0 + (tid % 7) / 8192.0


def systems_json(bracket_rungs):
    return [[[int(s), int(l)] for s, l in sys_] for sys_ in bracket_rungs]


# ---------------------------------------------------------------------------------
# scheduler level


class Job:
    def __init__(self, tid, bracket, level, next_r):
        self.tid, self.bracket, self.level, self.next_r = tid, bracket, level, next_r


def header_for(ctor, level, impl_rungs):
    h = dict(ctor)
    h["stream"] = "sync"
    h["level"] = level
    h.setdefault("kind", "hyperband")
    if "geometric" in ctor and impl_rungs is not None:
        h["hint_rungs"] = impl_rungs
    return h


def run_scheduler(spec):
    """spec: {"ctor": {...}, "seed": int, "n_workers": int, "max_events": int, "style": str,
              "p_fail": float, "p_late": float, "p_noconfig": float, "p_nan": float,
              "p_skip": float, "checkpointing": bool, "report_all": bool, "sign": +-1,
              "script": [int,...] (optional: explicit choices instead of random ones)}
    returns {"lines": [...], "events": [...], "ctor": ..., "systems": ...}"""
    ctor = dict(spec["ctor"])
    rng = random.Random(spec["seed"])
    lines, events = [], []
    cache = {}
    try:
        sch, stub = make_scheduler(ctor)
    except Exception as e:  # constructor assertion
        lines.append((header_for(ctor, "scheduler", None), {"err": errname(e)}))
        events.append({"ev": "ctor-error", "err": errname(e)})
        return {"lines": lines, "events": events, "ctor": ctor, "systems": None}
    mgr = sch.bracket_manager
    systems = systems_json(mgr.bracket_rungs)
    out0 = {"bracket_rungs": systems}
    out0.update(wire(snapshot_scheduler(sch, cache)))
    lines.append((header_for(ctor, "scheduler", systems), out0))
    events.append({"ev": "init", "state": snapshot_scheduler(sch, cache)})
    style = spec.get("style", "general")
    sign = spec.get("sign", 1)
    jobs = {}     # running trials
    trials = {}
    late = []
    next_id = 0
    script = spec.get("script")
    script_pos = [0]

    def choose(options):
        if script is not None:
            if script_pos[0] >= len(script):
                return None
            c = options[script[script_pos[0]] % len(options)]
            script_pos[0] += 1
            return c
        return rng.choice(options)

    def start_resource(bracket, level):
        prev = mgr.level_to_prev_level(bracket, level)
        return prev + 1 if spec.get("checkpointing", True) else 1

    pre = [0]  # primary bracket before the current operation

    def do_result(tid, r, v):
        inp = {"op": "result", "trial": tid, "resource": r, "metric": mstr(v)}
        before = snapshot_scheduler(sch, cache)
        pre[0] = before["primary"]
        try:
            d = sch.on_trial_result(trials[tid], {METRIC: v, RES: r})
        except Exception as e:  # noqa
            lines.append((inp, {"err": errname(e)}))
            pend = sch._trial_to_pending_slot.get(tid)
            events.append({"ev": "result-error", "trial": tid, "resource": r, "err": errname(e), "msg": str(e)[:200],
                           "skipped_level": pend is not None and r > pend[1].level})
            return None
        out = {"decision": d, "calls": stub.take()}
        out.update(wire(snapshot_scheduler(sch, cache), pre[0]))
        lines.append((inp, out))
        events.append({"ev": "result", "trial": tid, "resource": r, "metric": mstr(v), "decision": d,
                       "before": before, "state": snapshot_scheduler(sch, cache)})
        return d

    def next_is_resume():
        """would the next job be the resumption of a paused trial? (read off the real manager)"""
        for b in range(mgr._primary_bracket_id, len(mgr._brackets)):
            br = mgr._brackets[b]
            if not br.is_bracket_complete():
                rung, _ = br._current_rung_and_level()
                if br._first_free_pos < len(rung):
                    return rung[br._first_free_pos][0] is not None
        return False

    n_events = 0
    next_options = None
    while n_events < spec["max_events"]:
        n_events += 1
        options = []
        if len(jobs) < spec["n_workers"] and (next_id < spec.get("max_trials", 10 ** 9) or next_is_resume()):
            options += ["suggest"] * (1 if script is not None else 2)
        if jobs:
            if script is not None:
                options += [("report", t) for t in sorted(jobs)]
                if spec.get("p_fail", 0) > 0:
                    options += [("fail", t) for t in sorted(jobs)]
            else:
                options += ["report"] * 5
                if rng.random() < spec.get("p_fail", 0):
                    options = ["fail"]
        if script is None:
            if late and rng.random() < spec.get("p_late", 0):
                options = ["late"]
            if rng.random() < 0.08:
                options = ["take"]
        if not options:
            break
        a = choose(options)
        if a is None:
            next_options = len(options)
            break
        if isinstance(a, tuple):
            a, forced_tid = a
        else:
            forced_tid = None
        if a == "suggest":
            has_config = not (rng.random() < spec.get("p_noconfig", 0))
            stub.next_has_config = has_config
            stub.asked = False
            use_id = next_id
            if script is None and sch._trial_to_pending_slot and rng.random() < spec.get("p_reuse", 0):
                # contract violation by the caller: the id of a trial which is still pending
                use_id = rng.choice(sorted(sch._trial_to_pending_slot))
            inp = {"op": "suggest", "trial_id": use_id, "has_config": has_config}
            before = snapshot_scheduler(sch, cache)
            pre[0] = before["primary"]
            try:
                sg = sch.suggest(use_id)
            except Exception as e:  # noqa
                lines.append((inp, {"err": errname(e)}))
                events.append({"ev": "suggest-error", "err": errname(e), "msg": str(e)[:200], "reused_id": use_id != next_id})
                break
            calls = stub.take()
            if sg is None:
                out = {"suggestion": {"kind": "none"}, "calls": calls}
                events.append({"ev": "suggest-none", "asked": stub.asked, "has_config": has_config,
                               "before": before, "state": snapshot_scheduler(sch, cache)})
            elif sg.spawn_new_trial_id:
                tid = next_id
                next_id += 1
                trials[tid] = Trial(trial_id=tid, config=sg.config, creation_time=EPOCH0)
                b, sl = sch._trial_to_pending_slot[tid]
                cfg_level = int(sg.config[MAXATTR]) if ctor.get("max_resource_attr") else None
                out = {"suggestion": {"kind": "start", "trial": tid, "bracket": int(b), "rung_index": int(sl.rung_index),
                                      "slot_index": int(sl.slot_index), "level": int(sl.level), "cfg_level": cfg_level},
                       "calls": calls}
                sch.on_trial_add(trials[tid])
                jobs[tid] = Job(tid, int(b), int(sl.level), 1)
                events.append({"ev": "start", "trial": tid, "bracket": int(b), "rung_index": int(sl.rung_index),
                               "slot_index": int(sl.slot_index), "level": int(sl.level), "cfg_level": cfg_level,
                               "before": before, "state": snapshot_scheduler(sch, cache)})
            else:
                tid = int(sg.checkpoint_trial_id)
                b, sl = sch._trial_to_pending_slot[tid]
                cfg_level = None
                if sg.config is not None:
                    trials[tid] = Trial(trial_id=tid, config=sg.config, creation_time=EPOCH0)
                    if ctor.get("max_resource_attr"):
                        cfg_level = int(sg.config[MAXATTR])
                out = {"suggestion": {"kind": "resume", "trial": tid, "level": int(sl.level), "cfg_level": cfg_level},
                       "calls": calls}
                jobs[tid] = Job(tid, int(b), int(sl.level), start_resource(int(b), int(sl.level)))
                events.append({"ev": "resume", "trial": tid, "bracket": int(b), "rung_index": int(sl.rung_index),
                               "slot_index": int(sl.slot_index), "level": int(sl.level), "cfg_level": cfg_level,
                               "before": before, "state": snapshot_scheduler(sch, cache)})
            out.update(wire(snapshot_scheduler(sch, cache), pre[0]))
            lines.append((inp, out))
        elif a == "report":
            tid = forced_tid if forced_tid is not None else rng.choice(sorted(jobs))
            j = jobs[tid]
            r = j.next_r
            if not spec.get("report_all", False) or script is not None:
                r = j.level  # only the milestone report
            elif rng.random() < 0.3:
                r = j.level
            if script is None and rng.random() < spec.get("p_skip", 0):
                r = j.level + 1  # contract violation: the training script skips the rung level
            v = sign * metric_value(spec["seed"], tid, r, style)
            if script is None and rng.random() < spec.get("p_nan", 0):
                v = float("nan")
            if script is None and spec.get("p_inf") and rng.random() < spec["p_inf"]:
                v = rng.choice([float("inf"), float("-inf")])   # a proper (if extreme) value: ranks first or last among the valid ones
            d = do_result(tid, r, v)
            if d is None:
                break
            j.next_r = r + 1
            if d != SchedulerDecision.CONTINUE:
                del jobs[tid]
                sch.on_trial_remove(trials[tid])
                pre[0] = int(mgr._primary_bracket_id)
                lines.append(({"op": "remove", "trial": tid}, wire(snapshot_scheduler(sch, cache), pre[0])))
                late.append((tid, r + 1))
                if rng.random() < 0.2 and script is None:
                    sch.on_trial_complete(trials[tid], {METRIC: v, RES: r})
                    pre[0] = int(mgr._primary_bracket_id)
                    out = {"calls": stub.take()}
                    out.update(wire(snapshot_scheduler(sch, cache), pre[0]))
                    lines.append(({"op": "complete", "trial": tid, "resource": r, "metric": mstr(v)}, out))
        elif a == "fail":
            if forced_tid is not None:
                tid = forced_tid
            elif jobs and (not late or rng.random() < 0.85):
                tid = rng.choice(sorted(jobs))
            else:
                tid = late[rng.randrange(len(late))][0]  # failure of a trial which is not pending
            was_pending = tid in sch._trial_to_pending_slot
            pend = None
            if was_pending:
                b, sl = sch._trial_to_pending_slot[tid]
                pend = [int(b), int(sl.rung_index), int(sl.slot_index)]
            before = snapshot_scheduler(sch, cache)
            pre[0] = before["primary"]
            jobs.pop(tid, None)
            try:
                sch.on_trial_error(trials[tid])
            except Exception as e:  # noqa
                lines.append(({"op": "error", "trial": tid}, {"err": errname(e)}))
                events.append({"ev": "error-raised", "trial": tid, "err": errname(e), "msg": str(e)[:300],
                               "exc": type(e).__name__})
                break
            out = {"calls": stub.take()}
            out.update(wire(snapshot_scheduler(sch, cache), pre[0]))
            lines.append(({"op": "error", "trial": tid}, out))
            events.append({"ev": "error", "trial": tid, "was_pending": was_pending, "slot": pend,
                           "before": before, "state": snapshot_scheduler(sch, cache)})
        elif a == "late":
            tid, r = late.pop(rng.randrange(len(late)))
            if tid in jobs:
                continue
            v = sign * metric_value(spec["seed"], tid, r, style)
            d = do_result(tid, r, v)
            if d is None:
                break
            events[-1]["late"] = True
        elif a == "take":
            pre[0] = int(mgr._primary_bracket_id)
            removed = [tid_json(t) for t in sch.trials_checkpoints_can_be_removed()]
            out = {"removed": removed}
            out.update(wire(snapshot_scheduler(sch, cache), pre[0]))
            lines.append(({"op": "take_removable"}, out))
            events.append({"ev": "take", "removed": removed})
    # what is still in the list at the end also counts as reported
    events.append({"ev": "final", "removable": [tid_json(t) for t in sch._trials_checkpoints_can_be_removed],
                   "state": snapshot_scheduler(sch, cache), "running": sorted(jobs)})
    return {"lines": lines, "events": events, "ctor": ctor, "systems": systems, "mode": ctor["mode"],
            "next_options": next_options}


# ---------------------------------------------------------------------------------
# manager level (also DEHB's bracket manager)


def parent_walk_ends(mgr, b, level, slot_index):
    """`trial_id_from_parent_slot` walks `while trial_id is None and bracket_id > 0`; for
    offset 0 its step `num_bracket_offsets - rung_index` can be <= 0, then the real loop does
    not terminate on an empty slot (or indexes `_brackets` from the end).  The walk is
    repeated here with these cases detected, so that the harness only asks questions the
    real code answers (value, None or IndexError)."""
    bb = b
    for _ in range(len(mgr._brackets) + 2):
        if bb <= 0:
            return True
        delta, ri = mgr._parent_rung[(mgr._bracket_id_to_offset[bb], level)]
        nb = bb - delta
        if nb < 0:
            return False
        if nb >= len(mgr._brackets) or ri >= len(mgr._brackets[nb]._rungs):
            return True  # IndexError
        rung = mgr._brackets[nb]._rungs[ri][0]
        if slot_index >= len(rung) or rung[slot_index][0] is not None:
            return True
        if delta <= 0:
            return False
        bb = nb
    return False


def run_manager(spec):
    """spec: {"ctor": {"kind": "hyperband"|"dehb", "mode", "bracket_rungs" | "rungs_first"+"num_brackets"},
              "seed", "max_events", "style", "p_fail", "p_bad", "n_open"}"""
    ctor = dict(spec["ctor"])
    rng = random.Random(spec["seed"])
    kind = ctor.get("kind", "hyperband")
    lines, events = [], []
    header = dict(ctor)
    header.update({"stream": "sync", "level": "manager", "kind": kind})
    try:
        if kind == "dehb":
            mgr = DifferentialEvolutionHyperbandBracketManager(
                rungs_first_bracket=[(int(s), int(l)) for s, l in ctor["rungs_first"]], mode=ctor["mode"],
                num_brackets_per_iteration=ctor.get("num_brackets"))
        else:
            own = [[(int(s), int(l)) for s, l in sys_] for sys_ in ctor["bracket_rungs"]]
            mgr = SynchronousHyperbandBracketManager(own, mode=ctor["mode"])
            _scramble(own)  # the caller goes on using (and changing) its own list: the manager must not see that
    except Exception as e:  # noqa
        lines.append((header, {"err": errname(e)}))
        events.append({"ev": "ctor-error"})
        return {"lines": lines, "events": events, "ctor": ctor, "systems": None}
    systems = systems_json(mgr.bracket_rungs)
    out0 = {"bracket_rungs": systems}
    out0.update(wire(snapshot_manager(mgr)))
    lines.append((header, out0))
    events.append({"ev": "init", "state": snapshot_manager(mgr)})
    open_jobs = []  # (bracket, SlotInRung)
    next_id = 0
    bad_id = [10 ** 6]
    style = spec.get("style", "general")
    for _ in range(spec["max_events"]):
        acts = []
        if len(open_jobs) < spec.get("n_open", 4):
            acts += ["next"] * 2
        if open_jobs:
            acts += ["result"] * 3
        if rng.random() < spec.get("p_bad", 0):
            acts = ["bad"]
        if kind == "dehb" and rng.random() < 0.3:
            acts = ["query"]
        if rng.random() < 0.05:
            acts = ["prev"]
        a = rng.choice(acts)
        if a == "next":
            before = snapshot_manager(mgr)
            try:
                b, sl = mgr.next_job()
            except Exception as e:  # noqa: a request for work never fails
                lines.append(({"op": "next_job"}, {"err": errname(e)}))
                events.append({"ev": "next_job-error", "err": errname(e), "msg": str(e)[:200], "exc": type(e).__name__, "before": before})
                break
            out = {"bracket": int(b), "slot": [int(sl.rung_index), int(sl.level), int(sl.slot_index), tid_json(sl.trial_id)]}
            out.update(wire(snapshot_manager(mgr), before["primary"]))
            lines.append(({"op": "next_job"}, out))
            events.append({"ev": "next_job", "bracket": int(b), "slot": out["slot"], "before": before, "state": snapshot_manager(mgr)})
            open_jobs.append((b, sl))
        elif a in ("result", "bad"):
            if a == "result":
                b, sl = open_jobs.pop(rng.randrange(len(open_jobs)))
                tid = sl.trial_id
                if tid is None or kind == "dehb":
                    # DEHB: the winner of the selection may be any earlier trial
                    if kind == "dehb" and next_id > 0 and rng.random() < 0.3:
                        tid = rng.randrange(next_id)
                    else:
                        tid = next_id
                        next_id += 1
                if rng.random() < spec.get("p_fail", 0):
                    v = float("nan")
                    if rng.random() < 0.3 and sl.trial_id is None:
                        tid = None  # searcher had no configuration
                else:
                    v = metric_value(spec["seed"], tid if tid is not None else 0, sl.level, style)
                res = SlotInRung(rung_index=sl.rung_index, level=sl.level, slot_index=sl.slot_index, trial_id=tid, metric_val=v)
            else:
                # an illegal call: every assertion of on_result is reachable from here
                if open_jobs and rng.random() < 0.7:
                    b, sl = open_jobs[rng.randrange(len(open_jobs))]
                else:
                    b = rng.randrange(0, len(mgr._brackets) + 1)
                    sl = SlotInRung(rung_index=rng.randrange(3), level=rng.randrange(1, 10), slot_index=rng.randrange(4), trial_id=None, metric_val=None)
                bad_id[0] += 2
                res = SlotInRung(rung_index=sl.rung_index, level=sl.level, slot_index=sl.slot_index,
                                 trial_id=sl.trial_id if sl.trial_id is not None else bad_id[0], metric_val=0.25)
                mut = rng.choice(["rung", "slot", "level", "tid", "nometric", "bracket", "none"])
                if mut == "rung":
                    res.rung_index += rng.choice([1, -1]) if res.rung_index > 0 else 1
                elif mut == "slot":
                    res.slot_index += rng.choice([1, 2, 5])
                elif mut == "level":
                    res.level += 1
                elif mut == "tid":
                    res.trial_id = bad_id[0] + 1
                elif mut == "nometric":
                    res.metric_val = None
                elif mut == "bracket":
                    b = rng.choice([max(0, mgr._primary_bracket_id - 1), len(mgr._brackets)])
            inp = {"op": "on_result", "bracket": int(b), "rung_index": int(res.rung_index), "level": int(res.level),
                   "slot_index": int(res.slot_index), "trial_id": tid_json(res.trial_id)}
            if res.metric_val is not None:
                inp["metric"] = mstr(res.metric_val)
            before = snapshot_manager(mgr)
            try:
                np_ = mgr.on_result((b, res))
            except Exception as e:  # noqa
                lines.append((inp, {"err": errname(e)}))
                events.append({"ev": "on_result-error", "err": errname(e), "legal": a == "result"})
                if a == "result":
                    break
                continue
            if a == "bad":
                # the mutated call happened to be legal: the job is answered
                open_jobs = [(bb, ss) for (bb, ss) in open_jobs if not (bb == b and ss.rung_index == res.rung_index and ss.slot_index == res.slot_index)]
            out = {"not_promoted": None if np_ is None else [tid_json(t) for t in np_]}
            out.update(wire(snapshot_manager(mgr), before["primary"]))
            lines.append((inp, out))
            events.append({"ev": "on_result", "bracket": int(b), "input": inp, "not_promoted": out["not_promoted"],
                           "before": before, "state": snapshot_manager(mgr)})
        elif a == "prev":
            b = rng.randrange(len(mgr._brackets))
            off = mgr._bracket_id_to_offset[b]
            lv = rng.choice([l for _, l in mgr.bracket_rungs[off]] + [10 ** 6])
            inp = {"op": "level_to_prev_level", "bracket": b, "level": int(lv)}
            try:
                lines.append((inp, {"prev": int(mgr.level_to_prev_level(b, lv))}))
            except Exception as e:  # noqa
                lines.append((inp, {"err": errname(e)}))
        elif a == "query":
            b = rng.randrange(len(mgr._brackets))
            q = rng.choice(["top", "parent", "size"])
            br = mgr._brackets[b]
            if q == "top":
                inp = {"op": "top_of_previous_rung", "bracket": b, "pos": rng.randrange(3)}
                f = lambda: {"trial": tid_json(mgr.top_of_previous_rung(b, inp["pos"]))}
            elif q == "parent":
                off = mgr._bracket_id_to_offset[b]
                lv = rng.choice([l for _, l in mgr.bracket_rungs[off]])
                si = rng.randrange(3)
                if not parent_walk_ends(mgr, b, lv, si):
                    continue
                inp = {"op": "parent_slot", "bracket": b, "level": int(lv), "slot_index": si}
                f = lambda: {"trial": tid_json(mgr.trial_id_from_parent_slot(b, inp["level"], inp["slot_index"]))}
            else:
                inp = {"op": "size_of_current_rung", "bracket": b}
                f = lambda: {"size": int(mgr.size_of_current_rung(b))}
            try:
                lines.append((inp, f()))
            except Exception as e:  # noqa
                lines.append((inp, {"err": errname(e)}))
    events.append({"ev": "final", "state": snapshot_manager(mgr)})
    return {"lines": lines, "events": events, "ctor": ctor, "systems": systems, "mode": ctor["mode"], "kind": kind}


# ---------------------------------------------------------------------------------
# comparison


def compare(inp, impl, model):
    from framework import default_compare, canon

    if impl is None:
        return None
    if "stream" in inp:
        if "err" in impl:
            me = model.get("err")
            if me is None:
                return f"impl constructor raised {impl['err']}, model accepted"
            me = me[len("init: "):] if me.startswith("init: ") else me
            if me.split(":")[0] != impl["err"].split(":")[0]:
                return f"constructor: impl {impl['err']} model {me}"
            return None
        if "err" in model:
            return f"model constructor error {model['err']} impl accepted"
    return default_compare(inp, impl, model)


# ---------------------------------------------------------------------------------
# monitors (direct readings of the property statements on the implementation trace)


def _scramble(bracket_rungs):
    """what a caller may do with ITS list of rung systems after it has built a scheduler from it"""
    for sys_ in bracket_rungs:
        sys_[:] = [(n + 3, l + 1) for n, l in sys_]
    bracket_rungs.append([(1, 1)])


def _key(mode, m):
    v = float(m) if m in ("inf", "-inf") else Fraction(m)
    return v if mode == "min" else -v


def check_top(below, got, mode, failed_ids=()):
    """is `got` (trial ids of the new rung) exactly the len(got) best entries of the completed
    rung `below` = [[tid, metric]…]?  Valid entries rank by metric (any order among equal
    metrics is accepted), failed ones (NaN) rank last.  Returns None or a description."""
    n = len(got)
    # (the workers of this stream report finite values only; whatever the slot of a failed job holds, it ranks last)
    valid = [(_key(mode, e[1]), e[0]) for e in below if e[1] != "nan" and e[0] not in failed_ids]
    failed = [e[0] for e in below if e[1] == "nan" or e[0] in failed_ids]
    ids = [e[0] for e in below if e[0] is not None]
    if len(ids) != len(set(ids)) or any(t is None for _, t in valid):
        return None  # reported by the distinctness clause
    if n > len(below):
        return f"new rung has {n} slots, rung below only {len(below)}"
    key_of = {t: k for k, t in valid}
    if len(valid) >= n:
        if any(t not in key_of for t in got):
            return f"{[t for t in got if t not in key_of]} promoted although {len(valid)} valid entries exist for {n} slots"
        if len(set(got)) != n:
            return "a trial is promoted twice"
        rest = [k for k, t in valid if t not in got]
        if rest and max(key_of[t] for t in got) > min(rest):
            return "a promoted trial is worse than one which is not promoted"
        return None
    # fewer valid entries than slots: all valid ones, the others are failed ones
    if sorted(t for t in got if t in key_of) != sorted(key_of):
        return "not all valid entries are promoted although there are fewer than slots"
    extra = [t for t in got if t not in key_of]
    pool = list(failed)
    for t in extra:
        if t in pool:
            pool.remove(t)
        else:
            return f"{t} in the new rung is not an entry of the rung below"
    return None


def _in_contract(events):
    """the events up to (and including) the first violation of the caller's contract injected
    by the harness (a pending trial's id handed to suggest, a report beyond the milestone):
    the real call raises half-way, what the state looks like afterwards is not the property's
    concern"""
    out = []
    for ev in events:
        out.append(ev)
        if (ev["ev"] == "suggest-error" and ev.get("reused_id")) or (ev["ev"] == "result-error" and ev.get("skipped_level")):
            break
    return out


def _states(events):
    for ev in events:
        if "state" in ev:
            yield ev


def monitor_c05(trace):
    out = []
    systems, mode = trace.get("systems"), trace.get("mode")
    if systems is None or trace.get("kind", "hyperband") != "hyperband":
        return out
    nsys = len(systems)

    def add(sig, what, ev):
        out.append({"signature": sig, "what": what, "detail": {k: v for k, v in ev.items() if k not in ("before",)}})

    seen_rungs = set()
    failed = set()
    failed_slots = set()  # (bracket, rung index, trial): the job of that slot failed
    reported = {}         # (trial, level) -> the metric value the worker reported there (the harness's own record)
    events = _in_contract(trace["events"])
    for ev in events:
        # no call raises (except the assertion against a training script skipping its rung level)
        if ev["ev"] == "suggest-error" and not ev.get("reused_id"):
            add("c05:suggest-raises", f"suggest raised {ev.get('err')}: {ev.get('msg')}", ev)
        if ev["ev"] == "next_job-error":
            add("c05:next-job-raises", f"bracket manager: next_job raised {ev.get('exc')}: {ev.get('msg')} (a request for work never blocks or fails)", ev)
        if ev["ev"] == "result-error" and not ev.get("skipped_level"):
            add("c05:result-raises", f"on_trial_result raised {ev.get('err')}: {ev.get('msg')}", ev)
        if ev["ev"] == "on_result-error" and ev.get("legal"):
            add("c05:result-raises", f"manager.on_result raised {ev.get('err')} on a legal call", ev)
    for ev in _states(events):
        # the trials resumed are the best ones of the completed rung, failed ones rank last:
        # a trial which failed (on_trial_error) must not be resumed (F4: get_top_list fills up
        # the next rung with failed trials when too few valid entries exist)
        if ev["ev"] == "error" and ev.get("was_pending"):
            failed.add(ev["trial"])  # (a paused trial cannot fail; such calls are ignored by the scheduler)
            if ev.get("slot"):
                failed_slots.add((ev["slot"][0], ev["slot"][1], ev["trial"]))
        if ev["ev"] == "result" and ev.get("metric") is not None and not ev.get("late") and ev.get("decision") != "CONTINUE":
            # (the report that ends the job of a slot; reports below the level of the slot get CONTINUE, reports of a trial
            # that holds no slot - `late` - are ignored by the scheduler)
            reported[(ev["trial"], ev["resource"])] = ev["metric"]
        if ev["ev"] == "resume" and ev["trial"] in failed:
            add("c05:failed-trial-promoted",
                f"failed trial {ev['trial']} was promoted and is resumed to level {ev['level']} (bracket {ev['bracket']})", ev)
        st = ev["state"]
        brs = st["brackets"]
        # cycle: bracket b uses rung system b mod num_offsets, rungs have exactly the configured sizes
        for b, br in enumerate(brs):
            if st["offsets"][b] != b % nsys:
                add("c05:bracket-cycle", f"bracket {b} has offset {st['offsets'][b]}, expected {b % nsys}", ev)
            spec = systems[b % nsys]
            if len(br["rungs"]) != len(spec):
                add("c05:rung-size", f"bracket {b} has {len(br['rungs'])} rungs, system has {len(spec)}", ev)
                continue
            for k, (lv, content) in enumerate(br["rungs"]):
                size = len(content) if isinstance(content, list) else content
                if size != spec[k][0] or lv != spec[k][1]:
                    add("c05:rung-size", f"bracket {b} rung {k}: size {size} level {lv}, configured {spec[k]}", ev)
                if isinstance(content, list):
                    ids = [e[0] for e in content if e[0] is not None]
                    if len(ids) != len(set(ids)):
                        add("c05:duplicate-trial-in-rung", f"bracket {b} rung {k} holds a trial twice: {ids}", ev)
                    # barrier: a materialised rung k>0 needs a fully occupied rung k-1
                    if k > 0:
                        below = br["rungs"][k - 1][1]
                        if not isinstance(below, list) or any(e[1] is None for e in below):
                            add("c05:rung-opened-before-complete", f"bracket {b}: rung {k} exists while rung {k-1} is not fully occupied", ev)
                        elif (b, k) not in seen_rungs:
                            seen_rungs.add((b, k))
                            got = [e[0] for e in content]
                            # ranked by what the workers reported at this level (not by what the scheduler has stored)
                            lv_below = br["rungs"][k - 1][0]
                            below = [[e[0], reported.get((e[0], lv_below), e[1])] for e in below]
                            why = check_top(below, got, mode, {t_ for (b_, k_, t_) in failed_slots if b_ == b and k_ == k - 1})
                            if why is not None:
                                add("c05:top-list", f"bracket {b}: rung {k} = {got} from rung below {below}: {why}", ev)
        # primary = least id of a bracket which is not complete
        incomplete = [b for b, br in enumerate(brs) if br["current"] < len(br["rungs"])]
        if not incomplete or st["primary"] != incomplete[0]:
            add("c05:primary", f"primary {st['primary']} but incomplete brackets are {incomplete}", ev)
        # never blocks / new bracket iff no open bracket has a free slot
        if ev["ev"] in ("start", "resume", "suggest-none", "next_job") and "before" in ev:
            bf = ev["before"]
            if ev["ev"] == "suggest-none" and not (ev.get("asked") and not ev.get("has_config")):
                add("c05:blocked", "suggest returned no job although the searcher was not asked / had a configuration", ev)
            free = []
            for b in range(bf["primary"], len(bf["brackets"])):
                br = bf["brackets"][b]
                if br["current"] < len(br["rungs"]):
                    cur = br["rungs"][br["current"]][1]
                    if isinstance(cur, list) and br["first_free"] < len(cur):
                        free.append(b)
            created = len(st["brackets"]) - len(bf["brackets"])
            # "if all open brackets wait for results a new bracket is opened" (and serves the job)
            if not free and created < 1:
                add("c05:new-bracket-rule", "no open bracket had a free slot but no bracket was created", ev)
            if not free and ev["ev"] in ("start", "resume", "next_job") and ev["bracket"] < len(bf["brackets"]):
                add("c05:new-bracket-rule", f"no open bracket had a free slot, yet the job comes from old bracket {ev['bracket']}", ev)
        # a trial is resumed only to the next rung of its bracket, after its whole rung has reported
        if ev["ev"] == "resume":
            br = st["brackets"][ev["bracket"]]
            k = ev["rung_index"]
            ok = k >= 1 and k == br["current"] and isinstance(br["rungs"][k][1], list) and \
                isinstance(br["rungs"][k - 1][1], list) and \
                all(e[1] is not None for e in br["rungs"][k - 1][1]) and \
                any(e[0] == ev["trial"] for e in br["rungs"][k - 1][1]) and \
                br["rungs"][k][0] == ev["level"]
            if not ok:
                add("c05:resumed-before-rung-complete", f"trial {ev['trial']} resumed to level {ev['level']} but its rung below is not complete", ev)
    return out


def monitor_c13_sync(trace):
    out = []
    if trace.get("systems") is None:
        return out
    failed = set()

    def add(sig, what, ev):
        out.append({"signature": sig, "what": what, "detail": {k: v for k, v in ev.items() if k not in ("before",)}})

    for ev in _in_contract(trace["events"]):
        if ev["ev"] == "error-raised":
            if ev.get("exc") == "AttributeError" and "NAN" in ev.get("msg", ""):
                add("c13:on-trial-error-raises-np-NAN", f"on_trial_error raised {ev['msg']}", ev)
            else:
                add("c13:sync-on-trial-error-raises", f"on_trial_error raised {ev.get('exc')}: {ev.get('msg')}", ev)
        if ev["ev"] == "error":
            if ev.get("was_pending"):
                failed.add(ev["trial"])
            bf, st = ev["before"], ev["state"]
            slot = ev["slot"]
            for b, br in enumerate(bf["brackets"]):
                for k, (lv, content) in enumerate(br["rungs"]):
                    if not isinstance(content, list):
                        continue
                    after = st["brackets"][b]["rungs"][k][1]
                    for p, e in enumerate(content):
                        if slot is not None and [b, k, p] == slot:
                            if after[p][1] != "nan":
                                add("c13:sync-slot-stays-pending", f"slot {slot} of failed trial {ev['trial']} is {after[p]} after on_trial_error", ev)
                        elif after[p] != e:
                            add("c13:sync-others-changed", f"slot {[b, k, p]} changed from {e} to {after[p]} by the failure of trial {ev['trial']}", ev)
            others_before = [p for p in bf["pending"] if p[0] != ev["trial"]]
            if st["pending"] != others_before:
                add("c13:sync-others-changed", f"pending jobs of other trials changed: {others_before} -> {st['pending']}", ev)
        if ev["ev"] == "resume" and ev["trial"] in failed:
            add("c05:failed-trial-promoted", f"failed trial {ev['trial']} is resumed to level {ev['level']} (bracket {ev['bracket']})", ev)
        # no slot waits for a job nobody owes: every pending slot belongs to a pending trial
        if "state" in ev and "pending" in ev["state"]:
            st = ev["state"]
            owed = {(p[1], p[2], p[4]) for p in st["pending"]}
            for b, br in enumerate(st["brackets"]):
                if br["current"] < len(br["rungs"]):
                    cur = br["rungs"][br["current"]][1]
                    if isinstance(cur, list):
                        for p in range(min(br["first_free"], len(cur))):
                            if cur[p][1] is None and (b, br["current"], p) not in owed:
                                add("c13:sync-orphan-pending-slot", f"slot {p} of bracket {b} rung {br['current']} is pending but no trial owes it", ev)
    return out


def monitor_c20_sync(trace):
    out = []
    if trace.get("systems") is None:
        return out
    removable = set()
    for ev in _in_contract(trace["events"]):
        if "state" in ev and "removable" in ev["state"]:
            removable.update(t for t in ev["state"]["removable"] if t is not None)
        if ev["ev"] == "take":
            removable.update(t for t in ev["removed"] if t is not None)
        if ev["ev"] == "resume" and ev["trial"] in removable:
            out.append({"signature": "c20:sync-resume-after-removable",
                        "what": f"trial {ev['trial']} was reported by trials_checkpoints_can_be_removed and is resumed later",
                        "detail": {k: v for k, v in ev.items() if k != "before"}})
        if "state" in ev and "pending" in ev["state"]:
            # a removable trial sits in no slot that can still be handed out
            for b, br in enumerate(ev["state"]["brackets"]):
                if br["current"] < len(br["rungs"]):
                    cur = br["rungs"][br["current"]][1]
                    if isinstance(cur, list):
                        for p in range(br["first_free"], len(cur)):
                            if cur[p][0] is not None and cur[p][0] in removable:
                                out.append({"signature": "c20:sync-resume-after-removable",
                                            "what": f"trial {cur[p][0]} reported as removable waits in slot {p} of bracket {b}",
                                            "detail": {"ev": ev["ev"]}})
    return out
