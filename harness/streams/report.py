"""
Stream `report`: the real `syne_tune.report.Reporter` / `retrieve` of /repo driven by a
scripted "training script": report calls interleaved with other prints on the same
(captured) stdout, then the captured text is read back the way `LocalBackend.stdout` does
(`open(path, "r").readlines()`: UTF-8, universal newlines, lines keep their '\n') and
handed to the real `retrieve`.

Harness-side observation only (module attributes of `syne_tune.report` are wrapped for the
duration of one scenario and restored):
  * `time`, `perf_counter`  -> readings set by the scenario (the clock is an input tape)
  * `dump_json_with_numpy`  -> recording wrapper (the JSON text of every report, also of
                               those rejected afterwards by the size assertion)
  * `json`                  -> shim whose `loads` records the regex groups `retrieve` decodes

Value specs (generator language, plain JSON) -> Python objects -> model wire values.
"""
import contextlib
import io
import json
import logging
import math
import os
import sys
from fractions import Fraction

import numpy as np

logging.disable(logging.CRITICAL)
np.seterr(all="ignore")
import warnings
warnings.filterwarnings("ignore", category=RuntimeWarning)

import syne_tune.report as R
import syne_tune.constants as C
from syne_tune.report import Reporter, retrieve

from framework import frac_str

TAG = C.ST_SAGEMAKER_METRIC_TAG
MARKER = "[" + TAG + "]: {"
LINE_PREFIX = "[" + TAG + "]: "
RESERVED = "st_"  # literal of Reporter.__call__
SIZE_LIMIT = 50_000  # literal of _serialize_report_dict


def cps(s):
    return [ord(ch) for ch in s]


def from_cps(l):
    return "".join(chr(x) for x in l)


def flt_str(x):
    if x == 0 and math.copysign(1.0, x) < 0:
        return "-0"
    return frac_str(float(x))


# ---------------------------------------------------------------------------------
# value specs -> Python objects

NP_DTYPES = ["float16", "float32", "float64", "longdouble", "int8", "int16", "int32", "int64",
             "uint8", "uint16", "uint32", "uint64", "bool_", "str_", "complex64", "bytes_", "datetime64"]


def parse_float(s):
    if s in ("nan", "inf", "-inf"):
        return float(s)
    return float.fromhex(s)


class Thing:
    """an arbitrary object"""

    def __repr__(self):
        return "<Thing>"


def build(spec):
    """value spec -> Python object"""
    t = spec["t"]
    if t == "none":
        return None
    if t == "bool":
        return bool(spec["v"])
    if t == "int":
        return int(spec["v"])
    if t == "float":
        return parse_float(spec["v"])
    if t == "str":
        return spec["v"]
    if t == "list":
        return [build(x) for x in spec["v"]]
    if t == "tuple":
        return tuple(build(x) for x in spec["v"])
    if t == "dict":
        return {build_key(k): build(v) for k, v in spec["v"]}
    if t == "np":
        dt = spec["dtype"]
        v = spec["v"]
        if dt in ("float16", "float32", "float64", "longdouble"):
            return getattr(np, dt)(parse_float(v))
        if dt == "bool_":
            return np.bool_(bool(v))
        if dt == "str_":
            return np.str_(v)
        if dt == "complex64":
            return np.complex64(complex(parse_float(v), 1.0))
        if dt == "bytes_":
            return np.bytes_(b"ab")
        if dt == "datetime64":
            return np.datetime64("2020-01-01")
        return getattr(np, dt)(int(v))
    if t == "ndarray":
        return np.arange(int(spec.get("n", 3)))
    if t == "ndarray0":
        return np.array(1.5)  # 0-d array: not an np.generic
    if t == "set":
        return {1, 2}
    if t == "object":
        return Thing()
    if t == "complex":
        return complex(1, 2)
    if t == "bytes":
        return b"xy"
    raise ValueError("bad value spec " + str(t))


def build_key(spec):
    t = spec["t"]
    if t == "tuplekey":
        return (1, 2)
    if t == "npintkey":
        return np.int64(int(spec["v"]))
    if t == "npfloatkey":
        return np.float64(parse_float(spec["v"]))
    return build(spec)


UNSERIALISABLE = {"ndarray", "ndarray0", "set", "object", "complex", "bytes"}
BAD_NP = {"complex64", "bytes_", "datetime64"}


def spec_unserialisable(spec):
    """by construction of the spec: does the value contain something json.dumps with the
    numpy hook must reject"""
    t = spec["t"]
    if t in UNSERIALISABLE:
        return True
    if t == "np":
        return spec["dtype"] in BAD_NP
    if t in ("list", "tuple"):
        return any(spec_unserialisable(x) for x in spec["v"])
    if t == "dict":
        return any(k["t"] in ("tuplekey", "npintkey") or spec_unserialisable(v) for k, v in spec["v"])
    return False


def spec_kinds(spec, out):
    t = spec["t"]
    out["val:" + (t if t != "np" else "np." + spec["dtype"])] = out.get("val:" + (t if t != "np" else "np." + spec["dtype"]), 0) + 1
    if t in ("list", "tuple"):
        for x in spec["v"]:
            spec_kinds(x, out)
    if t == "dict":
        for k, v in spec["v"]:
            out["key:" + k["t"]] = out.get("key:" + k["t"], 0) + 1
            spec_kinds(v, out)


# ---------------------------------------------------------------------------------
# Python objects -> model wire (classification by the type dispatch of json.dumps)


def key_wire(k):
    if isinstance(k, str):
        return {"k": "str", "v": cps(str.__str__(k))}
    if isinstance(k, float):
        return {"k": "float", "r": cps(json.dumps(float(k)))}  # float.__repr__ / NaN / Infinity (trusted)
    if k is True or k is False:
        return {"k": "bool", "v": bool(k)}
    if k is None:
        return {"k": "null"}
    if isinstance(k, int):
        return {"k": "int", "v": str(int(k))}
    return {"k": "bad"}


def val_wire(o):
    if o is None:
        return {"k": "null"}
    if o is True or o is False:
        return {"k": "bool", "v": bool(o)}
    if isinstance(o, str):
        return {"k": "str", "v": cps(str.__str__(o))}
    if isinstance(o, int):
        return {"k": "int", "v": str(int(o))}
    if isinstance(o, float):
        return {"k": "float", "v": flt_str(float(o))}
    if isinstance(o, (list, tuple)):
        return {"k": "list", "v": [val_wire(x) for x in o]}
    if isinstance(o, dict):
        return {"k": "dict", "v": [[key_wire(k), val_wire(v)] for k, v in o.items()]}
    if isinstance(o, np.generic):
        return {"k": "np", "v": val_wire(o.item())}
    return {"k": "other"}


def plain_wire(o):
    """what json.loads returned -> wire of the model's `Plain`"""
    if o is None:
        return {"k": "null"}
    if o is True or o is False:
        return {"k": "bool", "v": o}
    if type(o) is str:
        return {"k": "str", "v": cps(o)}
    if type(o) is int:
        return {"k": "int", "v": str(o)}
    if type(o) is float:
        return {"k": "float", "v": flt_str(o)}
    if type(o) is list:
        return {"k": "list", "v": [plain_wire(x) for x in o]}
    if type(o) is dict:
        return {"k": "dict", "v": [[cps(k), plain_wire(v)] for k, v in o.items()]}
    raise TypeError("not a JSON value: " + repr(type(o)))


# ---------------------------------------------------------------------------------
# independent normalisation used by the monitor (documented: numpy scalar -> .item(),
# tuple -> list, non-str dictionary keys -> their JSON text)


def py_key(k):
    if isinstance(k, str):
        return str.__str__(k)
    if isinstance(k, float):
        x = float(k)
        if math.isnan(x):
            return "NaN"
        if math.isinf(x):
            return "Infinity" if x > 0 else "-Infinity"
        return float.__repr__(x)
    if k is True:
        return "true"
    if k is False:
        return "false"
    if k is None:
        return "null"
    if isinstance(k, int):
        return str(int(k))
    raise TypeError("key")


def py_normalise(o):
    if isinstance(o, np.generic) and not isinstance(o, (str, float, int)):
        o = o.item()
    if o is None or o is True or o is False:
        return o
    if isinstance(o, str):
        return str.__str__(o)
    if isinstance(o, int):
        return int(o)
    if isinstance(o, float):
        return float(o)
    if isinstance(o, (list, tuple)):
        return [py_normalise(x) for x in o]
    if isinstance(o, dict):
        return {py_key(k): py_normalise(v) for k, v in o.items()}
    raise TypeError("unserialisable")


def same(a, b):
    """strict deep equality of JSON values: types must agree, NaN equals NaN, -0.0 != 0.0"""
    if type(a) is not type(b):
        return False
    if isinstance(a, float):
        if math.isnan(a) or math.isnan(b):
            return math.isnan(a) and math.isnan(b)
        return a == b and math.copysign(1.0, a) == math.copysign(1.0, b)
    if isinstance(a, list):
        return len(a) == len(b) and all(same(x, y) for x, y in zip(a, b))
    if isinstance(a, dict):
        return list(a.keys()) == list(b.keys()) and all(same(a[k], b[k]) for k in a)
    return a == b


# ---------------------------------------------------------------------------------
# the scenario


class Clock:
    def __init__(self):
        self.now = 0.0
        self.perf = 0.0

    def time(self):
        return self.now

    def perf_counter(self):
        return self.perf


class JsonShim:
    """stands in for the `json` module inside syne_tune.report while `retrieve` runs;
    `lenient`: an undecodable group does not abort `retrieve` (used to observe all groups the
    regular expression finds in hostile text)"""

    def __init__(self, lenient=False):
        self.groups = []
        self.lenient = lenient

    def loads(self, s, *a, **kw):
        self.groups.append(s)
        if self.lenient:
            try:
                return json.loads(s, *a, **kw)
            except ValueError:
                return None
        return json.loads(s, *a, **kw)

    def __getattr__(self, name):
        return getattr(json, name)


@contextlib.contextmanager
def patched(clock, dumps_log):
    saved = (R.time, R.perf_counter, R.dump_json_with_numpy)
    real_dump = R.dump_json_with_numpy

    def recording_dump(x, *a, **kw):
        try:
            s = real_dump(x, *a, **kw)
        except BaseException as e:  # noqa
            dumps_log.append(("exc", type(e).__name__))
            raise
        dumps_log.append(("ok", s))
        return s

    R.time, R.perf_counter, R.dump_json_with_numpy = clock.time, clock.perf_counter, recording_dump
    try:
        yield
    finally:
        R.time, R.perf_counter, R.dump_json_with_numpy = saved


def errname(e):
    if isinstance(e, AssertionError):
        return "assertion"
    if isinstance(e, TypeError):
        return "type-error"
    return "other:" + type(e).__name__


def read_like_local_backend(text):
    """`LocalBackend.stdout`: `open(path, "r").readlines()` on the bytes the script wrote"""
    f = io.TextIOWrapper(io.BytesIO(text.encode("utf-8")), encoding="utf-8", newline=None)
    return f.readlines()


def lines_for(text, how):
    if how == "local":
        return read_like_local_backend(text)
    if how == "keepends":
        return io.StringIO(text, newline="\n").readlines()
    return [text]  # "text": a single element, i.e. the regex on the raw text


def real_retrieve(lines, lenient=False):
    """real `retrieve`; returns (dicts | None, regex groups it decoded, exception name | None)"""
    shim = JsonShim(lenient)
    saved = R.json
    R.json = shim
    try:
        try:
            got = retrieve(log_lines=lines)
            err = None
        except Exception as e:  # noqa
            got, err = None, type(e).__name__
    finally:
        R.json = saved
    return got, shim.groups, err


def run_scenario(spec):
    """spec: {"ctor": {"add_time": bool, "instance": None | [type, count]},
              "t0": float-hex, "ops": [{"op": "noise", "text": str} |
                                       {"op": "report", "kw": [[key, valspec], ...], "dnow": int, "dperf": int}],
              "retrieve": ["local", "keepends", "text"]}
    clock readings: now = t0 + (sum of dnow)/1024, perf = 5 + (sum of dperf)/1024 (dyadic, so that
    `perf - start` is exact); dnow may be negative (the wall clock may jump back)."""
    ctor = spec["ctor"]
    clock = Clock()
    t0 = float.fromhex(spec.get("t0", float(2 ** 30).hex()))
    clock.now, clock.perf = t0, 5.0
    dumps_log = []
    env_saved = {k: os.environ.get(k) for k in ("SM_HP_ST_INSTANCE_TYPE", "SM_HP_ST_INSTANCE_COUNT")}
    for k in env_saved:
        os.environ.pop(k, None)
    if ctor.get("instance"):
        os.environ["SM_HP_ST_INSTANCE_TYPE"] = ctor["instance"][0]
        os.environ["SM_HP_ST_INSTANCE_COUNT"] = str(ctor["instance"][1])
    buf = io.StringIO(newline="\n")
    calls = []
    lines = []
    try:
        with patched(clock, dumps_log), contextlib.redirect_stdout(buf):
            reporter = Reporter(add_time=ctor.get("add_time", True), add_cost=ctor.get("add_cost", True))
            dollar = getattr(reporter, "dollar_cost", None)
            header = {
                "stream": "report", "tag": cps(TAG),
                "k_timestamp": cps(C.ST_WORKER_TIMESTAMP), "k_time": cps(C.ST_WORKER_TIME),
                "k_cost": cps(C.ST_WORKER_COST), "k_iter": cps(C.ST_WORKER_ITER),
                "overhead": sys.getsizeof(""), "add_time": bool(reporter.add_time),
                "dollar_cost": None if dollar is None else frac_str(float(dollar)),
                "perf0": frac_str(clock.perf),
            }
            lines.append((header, {"marker_ok": True, "diag_ok": True, "tag_is_proved": True, "cfg_ok": True,
                                   "size_limit": SIZE_LIMIT, "reserved_prefix": cps(RESERVED),
                                   "iter": getattr(reporter, "iter", None)}))
            chunk = ""  # everything written since the last report line
            n_now = n_perf = 0
            for op in spec["ops"]:
                if op["op"] == "noise":
                    sys.stdout.write(op["text"])
                    chunk += op["text"]
                    lines.append(({"op": "noise", "text": cps(op["text"])}, {"clean": MARKER not in chunk}))
                    continue
                n_now += op.get("dnow", 1)
                n_perf += op.get("dperf", 1)
                clock.now = t0 + n_now / 1024.0
                clock.perf = 5.0 + n_perf / 1024.0
                kw = {k: build(v) for k, v in op["kw"]}
                kw_wire = [[cps(k), val_wire(o)] for k, o in kw.items()]
                before = buf.getvalue()
                n_dumps = len(dumps_log)
                exc = None
                try:
                    reporter(**kw)
                except Exception as e:  # noqa
                    exc = e
                written = buf.getvalue()[len(before):]
                if exc is None:
                    # the captured stream is a file (or a pipe) in UTF-8: text which cannot be encoded makes `print` raise there
                    try:
                        written.encode("utf-8")
                    except UnicodeEncodeError as e:
                        exc = e
                        buf.seek(len(before))
                        buf.truncate()
                        written = ""
                new_dumps = dumps_log[n_dumps:]
                payload = new_dumps[0][1] if new_dumps and new_dumps[0][0] == "ok" else None
                inp = {"op": "report", "kw": kw_wire, "now": frac_str(clock.now), "perf": frac_str(clock.perf),
                       "payload": None if payload is None else cps(payload)}
                if exc is None:
                    status = "ok"
                elif isinstance(exc, AssertionError):
                    # which assertion: told apart by where it was raised
                    tb = exc.__traceback__
                    names = []
                    while tb is not None:
                        names.append(tb.tb_frame.f_code.co_name)
                        tb = tb.tb_next
                    if "_check_reported_values" in names:
                        status = "assertion:none-value"
                    elif "_serialize_report_dict" in names:
                        status = "assertion:size"
                    else:
                        status = "assertion:reserved"
                elif isinstance(exc, TypeError):
                    status = "type-error"
                else:
                    status = "other:" + type(exc).__name__
                decoded = None
                if exc is None and payload is not None:
                    decoded = plain_wire(json.loads(payload))  # trusted json round trip, compared with Val.norm
                out = {"status": status, "iter": getattr(reporter, "iter", None), "written": cps(written),
                       "dict": decoded, "payload_ok": True, "prefix_ok": True}
                lines.append((inp, out))
                calls.append({"kw": kw, "spec": op["kw"], "exc": exc, "status": status, "written": written,
                              "payload": payload, "now": clock.now, "perf": clock.perf,
                              # the size of a report is the size of its JSON text on the (ASCII) wire
                              "size": None if payload is None else sys.getsizeof(json.dumps(json.loads(payload)))})
                if exc is None:
                    chunk = ""
                else:
                    chunk += written
    finally:
        for k, v in env_saved.items():
            if v is None:
                os.environ.pop(k, None)
            else:
                os.environ[k] = v
    text = buf.getvalue()
    retrieved = {}
    for how in spec.get("retrieve", ["local"]):
        got, groups, err = real_retrieve(lines_for(text, how))
        retrieved[how] = {"dicts": got, "groups": groups, "err": err}
        out = {"found": [cps(g) for g in groups]}
        if err is None:
            out["dicts"] = [plain_wire(d) for d in got]
        else:
            out["_err"] = err
        lines.append(({"op": "retrieve", "how": how}, out))
    for sc in spec.get("scans", []):
        # hostile text: only the regular expression is compared (model scanner vs re.findall inside retrieve)
        ls = sc["lines"]
        if sc.get("local"):
            ls_real = read_like_local_backend("\n".join(ls))
        else:
            ls_real = ls
        _, groups, _ = real_retrieve(ls_real, lenient=True)
        lines.append(({"op": "scan", "lines": [cps(l) for l in ls], "local": bool(sc.get("local"))},
                      {"found": [cps(g) for g in groups]}))
    return {"lines": lines, "calls": calls, "text": text, "retrieved": retrieved,
            "dollar_cost": dollar}


# ---------------------------------------------------------------------------------
# comparison of one line


def _approx_dict(impl, model, cost_key):
    """equal up to the floating-point rounding of `seconds * dollar_cost` (the model computes
    the product exactly)"""
    if impl is None or model is None:
        return impl == model
    if impl.get("k") != "dict" or model.get("k") != "dict" or len(impl["v"]) != len(model["v"]):
        return False
    for (ki, vi), (km, vm) in zip(impl["v"], model["v"]):
        if ki != km:
            return False
        if ki == cost_key and vi.get("k") == "float" and vm.get("k") == "float":
            a, b = Fraction(vi["v"]), Fraction(vm["v"])
            if abs(a - b) > Fraction(1, 2 ** 50) * max(abs(a), abs(b)):
                return False
        elif json.dumps(vi, sort_keys=True) != json.dumps(vm, sort_keys=True):
            return False
    return True


def compare(inp, impl, model):
    if impl is None:
        return None
    if "err" in model:
        return f"model error {model['err']}"
    mo = model.get("out", {})
    cost_key = cps(C.ST_WORKER_COST)
    if "stream" in inp:
        for k, v in impl.items():
            if mo.get(k) != v:
                return f"constructor: {k}: impl/expected {v} model {mo.get(k)}"
        return None
    op = inp["op"]
    if op == "noise":
        return None if mo.get("clean") == impl["clean"] else f"marker-free: harness {impl['clean']} model {mo.get('clean')}"
    if op == "report":
        for k in ("status", "iter", "written", "payload_ok", "prefix_ok"):
            if mo.get(k) != impl[k]:
                a, b = impl[k], mo.get(k)
                if k == "written":
                    a, b = repr(from_cps(a))[:300], repr(from_cps(b))[:300]
                return f"report: {k}: impl {a} model {b}"
        if not _approx_dict(impl["dict"], mo.get("dict"), cost_key):
            return f"report: dictionary: json.loads(payload) {json.dumps(impl['dict'])[:400]} model {json.dumps(mo.get('dict'))[:400]}"
        return None
    if op == "scan":
        if mo.get("found") != impl["found"]:
            return (f"scan: regex groups differ: impl {[from_cps(g)[:80] for g in impl['found']]} "
                    f"model {[from_cps(g)[:80] for g in mo.get('found', [])]}")
        return None
    if op == "retrieve":
        if mo.get("found") != impl["found"]:
            return (f"retrieve: regex groups differ: impl {[from_cps(g)[:80] for g in impl['found']]} "
                    f"model {[from_cps(g)[:80] for g in mo.get('found', [])]}")
        if "dicts" in impl and mo.get("equal"):
            md = mo.get("dicts", [])
            if len(md) != len(impl["dicts"]) or not all(_approx_dict(a, b, cost_key) for a, b in zip(impl["dicts"], md)):
                return f"retrieve: dictionaries differ: impl {json.dumps(impl['dicts'])[:400]} model {json.dumps(md)[:400]}"
        return None
    return f"unknown op {op}"
